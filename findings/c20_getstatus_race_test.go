package layer2

// Demonstration for the C20 finding (fixed): Announce.GetStatus handed out the slice stored under the announcer's
// lock; SetBalancer overwrites its elements in place on a re-announcement (changed interface set), so the status
// reconciler, which reads the elements after GetStatus has released the lock, raced with the service handler.
// Run (needs the race detector):
//   cd /repo && echo '{"Replace":{"/repo/internal/layer2/zz_c20_test.go":"/verif/findings/c20_getstatus_race_test.go"}}' > /tmp/ov.json \
//     && go test -race -overlay /tmp/ov.json -vet=off -count=1 ./internal/layer2 -run TestC20GetStatusDoesNotAliasGuardedState
// Before the fix: "WARNING: DATA RACE" (write in SetBalancer, read in the query goroutine) and the test fails
// deterministically on the aliasing check; after the fix it passes.
import (
	"net"
	"sync"
	"testing"

	"github.com/go-kit/log"
	"k8s.io/apimachinery/pkg/types"
	"k8s.io/apimachinery/pkg/util/sets"
)

func TestC20GetStatusDoesNotAliasGuardedState(t *testing.T) {
	a := &Announce{
		logger:   log.NewNopLogger(),
		ips:      map[string][]IPAdvertisement{},
		ipRefcnt: map[string]int{},
		spamCh:   make(chan IPAdvertisement, 4096),
	}
	go func() { // drain the gratuitous-announcement queue
		for range a.spamCh {
		}
	}()
	name := types.NamespacedName{Namespace: "ns", Name: "svc"}
	ip := net.ParseIP("192.168.1.20")
	a.SetBalancer(name.String(), NewIPAdvertisement(ip, false, sets.New("eth0")))

	// deterministic part: the status handed out must not change under the reader's feet
	st := a.GetStatus(name)
	if len(st) != 1 || !st[0].GetInterfaces().Has("eth0") {
		t.Fatalf("unexpected status %v", st)
	}
	a.SetBalancer(name.String(), NewIPAdvertisement(ip, false, sets.New("eth1")))
	if !st[0].GetInterfaces().Has("eth0") {
		t.Errorf("the status returned earlier was overwritten by a later SetBalancer: GetStatus aliases the guarded slice")
	}

	// concurrent part (meaningful under -race): handler re-announcing vs status query reading its result
	var wg sync.WaitGroup
	wg.Add(2)
	go func() {
		defer wg.Done()
		for i := 0; i < 2000; i++ {
			intf := "eth0"
			if i%2 == 1 {
				intf = "eth1"
			}
			a.SetBalancer(name.String(), NewIPAdvertisement(ip, false, sets.New(intf)))
		}
	}()
	go func() {
		defer wg.Done()
		n := 0
		for i := 0; i < 2000; i++ {
			for _, adv := range a.GetStatus(name) {
				if adv.IsAllInterfaces() || adv.GetInterfaces().Len() != 1 {
					n++
				}
			}
		}
		if n != 0 {
			t.Errorf("%d inconsistent advertisements read", n)
		}
	}()
	wg.Wait()
}
