package config

// Demonstration for the C08 findings (fixed):
//  1. an IPv4-mapped IPv6 CIDR kept its 16-byte form: Mask.Size() says /120 while Contains matches a /24,
//     so cidrsOverlap missed an overlap with an IPv4 CIDR and two pools could share addresses;
//  2. a start-end range with mixed families was accepted as an EMPTY pool.
import (
	"net"
	"testing"
)

func TestC08MappedCIDROverlapDetected(t *testing.T) {
	a, err := ParseCIDR("::ffff:1.2.3.0/120")
	if err != nil {
		t.Skipf("rejected: %v", err)
	}
	b, err := ParseCIDR("1.2.3.128/25")
	if err != nil {
		t.Fatal(err)
	}
	ip := net.ParseIP("1.2.3.200")
	if a[0].Contains(ip) && b[0].Contains(ip) && !cidrsOverlap(a[0], b[0]) {
		t.Errorf("%v and %v both contain %v but cidrsOverlap says false", a[0], b[0], ip)
	}
}

func TestC08MixedFamilyRangeRejected(t *testing.T) {
	got, err := ParseCIDR("1.2.3.4-2001::1")
	if err == nil && len(got) == 0 {
		t.Errorf("mixed-family range accepted as an empty pool")
	}
}
