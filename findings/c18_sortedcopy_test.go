package controllers

// Demonstration for the C18 finding (fixed): sortedCopy compared toSort[i]/toSort[j] while sorting res.
import (
	"testing"

	metallbv1beta1 "go.universe.tf/metallb/api/v1beta1"
	metav1 "k8s.io/apimachinery/pkg/apis/meta/v1"
)

func TestC18SortedCopySorts(t *testing.T) {
	for _, names := range [][]string{{"c", "a", "b"}, {"b", "c", "a", "d"}, {"d", "c", "b", "a"}} {
		var in []metallbv1beta1.IPAddressPool
		for _, n := range names {
			in = append(in, metallbv1beta1.IPAddressPool{ObjectMeta: metav1.ObjectMeta{Name: n}})
		}
		out := sortedCopy(in)
		for i := 1; i < len(out); i++ {
			if out[i-1].Name > out[i].Name {
				var got []string
				for _, o := range out {
					got = append(got, o.Name)
				}
				t.Errorf("sortedCopy(%v) = %v: not sorted", names, got)
				break
			}
		}
	}
}
