package allocator

// Demonstration for the C11 finding (fixed): poolCount returned negative counts.
// Run: cd /repo && go test -overlay <(echo '{"Replace":{"/repo/internal/allocator/zz_c11_test.go":"/verif/findings/c11_poolcount_test.go"}}') ./internal/allocator -run TestC11PoolCount
import (
	"net"
	"testing"

	"go.universe.tf/metallb/internal/config"
)

func c11cidr(s string) *net.IPNet {
	_, n, err := net.ParseCIDR(s)
	if err != nil {
		panic(err)
	}
	return n
}

func TestC11PoolCountNeverNegative(t *testing.T) {
	for _, tc := range []struct {
		cidrs []string
		avoid bool
	}{
		{[]string{"fc00::/64", "fc01::/120"}, false}, // saturation followed by a plain +=
		{[]string{"10.0.0.0/32"}, true},             // first == last, both buggy
		{[]string{"10.0.0.255/32"}, true},
		{[]string{"fc00::/67", "fc01::/67", "fc02::/67", "fc03::/67", "fc04::/67"}, false}, // 5 * 2^61
	} {
		p := &config.Pool{AvoidBuggyIPs: tc.avoid}
		for _, c := range tc.cidrs {
			p.CIDR = append(p.CIDR, c11cidr(c))
		}
		total, v4, v6 := poolCount(p)
		if total < 0 || v4 < 0 || v6 < 0 {
			t.Errorf("poolCount(%v avoid=%v) = %d %d %d: negative", tc.cidrs, tc.avoid, total, v4, v6)
		}
	}
}
