package main

// Demonstration for the C03 finding (fixed by bd00aa0): a PreferDualStack Service whose cluster IPs are single-stack,
// with a pool holding both families, oscillated [v4] -> [v4,v6] -> [v4] ... on every re-sync.
// Run: cd /repo && echo '{"Replace":{"/repo/controller/zz_c03_test.go":"/verif/findings/c03_oscillation_test.go"}}' > /tmp/ov.json && go test -overlay /tmp/ov.json -vet=off ./controller -run TestOscillationPreferDualStackSingleStackCluster


import (
	"net"
	"testing"

	"github.com/go-kit/log"
	v1 "k8s.io/api/core/v1"
	metav1 "k8s.io/apimachinery/pkg/apis/meta/v1"

	"go.universe.tf/metallb/internal/allocator"
	"go.universe.tf/metallb/internal/config"
	"go.universe.tf/metallb/internal/k8s/controllers"
)

// A PreferDualStack Service on a single-stack cluster (one IPv4 ClusterIP) with a pool that has both families.
func TestOscillationPreferDualStackSingleStackCluster(t *testing.T) {
	k := &testK8S{t: t}
	c := &controller{ips: allocator.New(func(string) {}), client: k}
	pools := &config.Pools{ByName: map[string]*config.Pool{
		"both": {Name: "both", AutoAssign: true, CIDR: []*net.IPNet{ipnet("1.2.3.0/31"), ipnet("1000::/127")}},
	}}
	if c.SetPools(log.NewNopLogger(), pools) == controllers.SyncStateError {
		t.Fatal("SetPools failed")
	}
	prefer := v1.IPFamilyPolicyPreferDualStack
	svc := &v1.Service{
		ObjectMeta: metav1.ObjectMeta{Namespace: "ns", Name: "s"},
		Spec: v1.ServiceSpec{Type: "LoadBalancer", ClusterIPs: []string{"10.0.0.1"}, ClusterIP: "10.0.0.1",
			IPFamilyPolicy: &prefer, Ports: []v1.ServicePort{{Protocol: "TCP", Port: 80}}},
	}
	var history [][]string
	for round := 0; round < 6; round++ {
		k.reset()
		c.SetBalancer(log.NewNopLogger(), "ns/s", svc, nil)
		if got := k.gotService(svc); got != nil {
			svc = got
		}
		var ips []string
		for _, in := range svc.Status.LoadBalancer.Ingress {
			ips = append(ips, in.IP)
		}
		history = append(history, ips)
	}
	t.Logf("status after each re-sync: %v", history)
	for i := 2; i < len(history); i++ {
		if len(history[i]) != len(history[i-1]) {
			t.Fatalf("the Service's address set keeps changing on re-syncs with nothing else happening: %v", history)
		}
	}
}
