package config

// Demonstration for the C18 finding (fixed): poolsByNamespace returned the pools of a namespace in map-iteration order.
import (
	"sort"
	"testing"

	"k8s.io/apimachinery/pkg/util/sets"
)

func TestC18PoolsByNamespaceDeterministic(t *testing.T) {
	pools := map[string]*Pool{}
	for _, n := range []string{"p1", "p2", "p3", "p4", "p5"} {
		pools[n] = &Pool{Name: n, ServiceAllocations: &ServiceAllocation{Namespaces: sets.New("ns")}}
	}
	for i := 0; i < 200; i++ {
		got := poolsByNamespace(pools)["ns"]
		if !sort.StringsAreSorted(got) {
			t.Fatalf("run %d: poolsByNamespace = %v: depends on map iteration order", i, got)
		}
	}
}
