#!/bin/bash
# tools/selftest.sh <property-id> [patch...]
# Applies each must-fail patch of selftest/<id>/ to a scratch worktree of /repo (outside /repo and /verif),
# runs the property check against it and requires exit 1 with a named failing obligation.
set -u
cd "$(dirname "$0")/.."
ROOT="$(pwd)"
id="$1"; shift
patches=("$@")
if [ ${#patches[@]} -eq 0 ]; then patches=(selftest/$id/*.patch); fi
killed=0; total=0; survivors=()
for p in "${patches[@]}"; do
  [ -f "$p" ] || continue
  total=$((total+1))
  wt=$(mktemp -d /tmp/govc-mut-XXXXXX)
  rmdir "$wt"
  git -C /repo worktree add --detach -q "$wt" HEAD || { echo "cannot create worktree"; exit 2; }
  # carry over uncommitted changes of /repo
  git -C /repo diff HEAD | (cd "$wt" && git apply --allow-empty -q 2>/dev/null || true)
  if ! (cd "$wt" && git apply "$ROOT/$p" 2>/dev/null || git apply "$p" 2>/dev/null); then
    echo "SELFTEST $id $(basename $p): patch does not apply"; survivors+=("$(basename $p):noapply")
  else
    out=$(VERIF_REPO="$wt" VERIF_NOEVIDENCE=1 "$ROOT/bin/govc" check -prop "$id" -tier quick 2>&1); rc=$?
    if [ $rc -eq 1 ]; then
      killed=$((killed+1))
      echo "SELFTEST $id $(basename $p): killed by $(echo "$out" | grep -m1 '^FAILED obligation' | awk '{print $3}')"
    else
      echo "SELFTEST $id $(basename $p): SURVIVED (exit $rc)"; survivors+=("$(basename $p)")
      echo "$out" | tail -3
    fi
  fi
  git -C /repo worktree remove --force "$wt"
done
echo "SELFTEST $id: $killed/$total mutants killed"
[ $killed -eq $total ]
