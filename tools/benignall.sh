#!/bin/bash
# usage: tools/benignall.sh [name-substr]: run every behaviour-preserving patch of benign/ against the checks listed for it in
# benign/MAP.txt (sequentially: each run patches /repo). Expected: exit 0 (or 2 = UNDECIDED), never a VIOLATION line.
cd /verif
while read name ids; do
  [ -z "$name" ] && continue
  case "$name" in *"${1:-}"*) ;; *) continue;; esac
  for id in $ids; do BENIGN_LINES=4 tools/benignrun.sh $name $id | cut -c1-250; done
done < benign/MAP.txt
