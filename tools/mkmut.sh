#!/bin/bash
# tools/mkmut.sh <id> <name> <file-relative-to-repo> <python-replace-old> <python-replace-new>
set -e
id="$1"; name="$2"; file="$3"; old="$4"; new="$5"
cd /repo
python3 - "$file" "$old" "$new" <<'PY'
import sys
f,old,new=sys.argv[1:4]
s=open(f).read()
if s.count(old)<1:
    print("pattern not found in",f); sys.exit(1)
s=s.replace(old,new,1)
open(f,'w').write(s)
PY
mkdir -p /verif/selftest/$id
git diff -- "$file" > /verif/selftest/$id/$name.patch
git checkout -- "$file"
go_ok=0
echo "wrote selftest/$id/$name.patch ($(wc -l < /verif/selftest/$id/$name.patch) lines)"
