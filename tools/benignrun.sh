#!/bin/sh
# usage: tools/benignrun.sh <patch-name> <prop-id> [tier]: apply benign/<name>.patch (a behaviour-preserving change) to /repo,
# run the check, undo. Expected: exit 0, or exit 2 (UNDECIDED, contract no longer matches the code) -- never a VIOLATION line.
p=/verif/benign/$1.patch; id=$2; tier=${3:-quick}
git -C /repo apply "$p" || exit 3
VERIF_NOEVIDENCE=1 /verif/check "$id" "$tier" > /tmp/benignrun.$$ 2>&1; rc=$?
git -C /repo apply -R "$p"
grep -E "VIOLATION|FAILED|failed|UNDECIDED|VACUOUS|WARN|warn|^$id" /tmp/benignrun.$$ | cut -c1-260 | head -${BENIGN_LINES:-12}
rm -f /tmp/benignrun.$$
echo "benign $1 check $id $tier exit=$rc"
