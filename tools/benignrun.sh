#!/bin/sh
# usage: tools/benignrun.sh <patch-name> <prop-id> [tier]: apply benign/<name>.patch (a behaviour-preserving change) to a scratch
# worktree of /repo (outside /repo and /verif), run the check against it, remove the worktree.
# Expected: exit 0, or exit 2 (UNDECIDED, contract no longer matches the code) -- never a VIOLATION line.
p=/verif/benign/$1.patch; id=$2; tier=${3:-quick}
wt=$(mktemp -d /tmp/govc-benign-XXXXXX); rmdir "$wt"
git -C /repo worktree add --detach -q "$wt" HEAD || exit 3
git -C /repo diff HEAD | (cd "$wt" && git apply --allow-empty -q 2>/dev/null || true)
(cd "$wt" && git apply "$p") || { git -C /repo worktree remove --force "$wt"; exit 3; }
VERIF_REPO="$wt" VERIF_NOEVIDENCE=1 /verif/bin/govc check -prop "$id" -tier "$tier" > /tmp/benignrun.$$ 2>&1; rc=$?
git -C /repo worktree remove --force "$wt"
grep -E "VIOLATION|FAILED|failed|UNDECIDED|VACUOUS|WARN|warn|^$id" /tmp/benignrun.$$ | cut -c1-260 | head -${BENIGN_LINES:-12}
rm -f /tmp/benignrun.$$
echo "benign $1 check $id $tier exit=$rc"
