#!/bin/bash
# usage: tools/seedwt.sh <patch-file> <prop-id>... : apply the patch to a scratch worktree of /repo HEAD (outside /repo and /verif),
# run the given property checks against it (VERIF_REPO), remove the worktree. /repo itself is not touched.
p=$(readlink -f "$1"); shift
wt=$(mktemp -d /tmp/govc-seed-XXXXXX); rmdir "$wt"
git -C /repo worktree add --detach -q "$wt" HEAD || exit 3
git -C /repo diff HEAD | (cd "$wt" && git apply --allow-empty -q 2>/dev/null || true)
(cd "$wt" && git apply "$p") || { echo "patch does not apply"; git -C /repo worktree remove --force "$wt"; exit 3; }
for id in "$@"; do
  out=$(VERIF_REPO="$wt" VERIF_NOEVIDENCE=1 /verif/bin/govc check -prop "$id" -tier quick 2>&1); rc=$?
  echo "$out" | grep -E "^FAILED|^UNDECIDED|^VACUOUS" | cut -c1-260 | head -8
  echo "$out" | grep -c "^VIOLATION" | sed "s/^/violation lines: /"
  echo "seed $(basename $(dirname $p)) check $id exit=$rc"
done
git -C /repo worktree remove --force "$wt"
