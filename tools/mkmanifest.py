#!/usr/bin/env python3
# Regenerates /verif/MANIFEST.json from tools/claims.json (claimed properties) + properties.jsonl.
import json, subprocess, os
root = os.path.dirname(os.path.dirname(os.path.abspath(__file__)))
props = [json.loads(l) for l in open(os.path.join(root, 'properties.jsonl'))]
claims = json.load(open(os.path.join(root, 'tools', 'claims.json')))
hooks_commits = subprocess.run(['git', '-C', '/repo', 'log', '--format=%H %s'], capture_output=True, text=True).stdout.splitlines()
hook_shas = [l.split()[0] for l in hooks_commits if ' verif hooks:' in l or l.split(' ',1)[1].startswith('verif hooks')]
checks = []
for pid, c in claims['claimed'].items():
    checks.append({
        "property_id": pid,
        "quick_cmd": f"./check {pid} quick",
        "thorough_cmd": f"./check {pid} thorough",
        "evidence_file": f"/verif/evidence/{pid}.json",
        "replay_cmd_template": "./check replay {path}",
        "engine": "govc",
        "level_claimed": {"category": "proof", "text": c['text'], "design_ref": c.get('design_ref', 'DESIGN.md §6 ' + pid)},
        "level_note": c['note'],
        "technique": c.get('technique', "contract-based deductive verification: VCs generated from go/ssa of the real functions against //@ contracts, discharged by z3/cvc5"),
    })
na = []
for p in props:
    if p['id'] in claims['claimed']:
        continue
    na.append({"property_id": p['id'], "reason": claims['not_applicable'].get(p['id'], "not yet under contract in this round: no obligation generated for it; see DESIGN.md changelog")})
m = {
 "version": 1,
 "setup_cmd": "cd engine && GOFLAGS=-mod=mod GOPROXY=off go build -o ../bin/govc ./cmd/govc",
 "hooks": {"guard": "verif",
   "enable": "-tags verif (contract files <pkg>/zz_verif_contracts.go are comment-only and compiled only with this tag)",
   "baseline_off_cmd": "for m in $(cat /w/out/gomods.txt); do MF=$(cd /repo/$m && . /w/out/goenv.sh && gomodflag); (cd /repo/$m && go test $MF -json -vet=off -count=1 -timeout 25m ./...); done",
   "source_commits": hook_shas, "add_only": True},
 "engines": [{"name": "govc", "path": "engine", "serves_properties": sorted(claims['claimed'].keys()),
   "kind_free_text": "VC generator over go/ssa (NaiveForm) of the real packages loaded from /repo on every run + contracts in //@ comments; one SMT query per named obligation; z3 5.1.0 / z3 4.8.12 / cvc5 1.0 raced"}],
 "checks": checks,
 "not_applicable": na,
 "notes": claims.get('notes', ''),
}
json.dump(m, open(os.path.join(root, 'MANIFEST.json'), 'w'), indent=1)
print("claimed:", sorted(claims['claimed'].keys()), "n/a:", len(na))
