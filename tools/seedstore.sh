#!/bin/bash
# usage: tools/seedstore.sh <seed-worktree> <seed-name>: copy a confirmed seed into /verif/seeded/<seed-name>
wt=$1; d=/verif/seeded/$2; mkdir -p $d
cp $wt/patch.diff $d/patch.diff; cp $wt/demo_test.go.txt $d/; cp $wt/demo_path.txt $d/; cp $wt/meta.txt $d/agent_meta.txt
ls $d
