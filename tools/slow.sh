#!/bin/bash
# usage: tools/slow.sh [secs] [ids...]: list obligations slower than secs (default 3) per property, run one check at a time
cd /verif; thr=${1:-3}; shift
ids=${@:-C01 C04 C05 C08 C09 C10 C11 C13 C18 C20}
for id in $ids; do VERIF_NOEVIDENCE=1 ./bin/govc check -prop $id -v 2>&1 | awk -v id=$id -v t=$thr '($1=="unsat"||$1=="timeout"||$1=="unknown"||$1=="sat") && $3+0>t && $0 !~ /cover\./ {print id, $0} /quick:/{print}' | cut -c1-170; done
