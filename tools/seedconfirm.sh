#!/bin/bash
# usage: tools/seedconfirm.sh <seed-worktree> <pkgs...> : confirm a seeded change in its scratch worktree
# (builds, existing tests of the given packages pass, demo fails with the change and passes without), no git stash.
wt=$1; shift
export GOFLAGS=-mod=mod GOPROXY=off
cd "$wt" || exit 3
demo=$(cat demo_path.txt); dpkg=./$(dirname "$demo")
go build ./... && echo "BUILD ok" || echo "BUILD FAIL"
go test -vet=off -count=1 -skip 'TestSeedDemo|TestManager' "$@" 2>&1 | grep -v "no test files" | tail -12
echo "--- demo with change (expect FAIL)"
go test -vet=off -count=1 -run TestSeedDemo "$dpkg" 2>&1 | tail -4
git apply -R patch.diff || echo "REVERT FAILED"
echo "--- demo without change (expect ok)"
go test -vet=off -count=1 -run TestSeedDemo "$dpkg" 2>&1 | tail -3
git apply patch.diff
