#!/bin/sh
# usage: tools/seedrun.sh <seed-dir-name> <prop-id> [tier]: apply seeded/<dir>/patch.diff to /repo, run the check, undo.
d=/verif/seeded/$1; id=$2; tier=${3:-quick}
git -C /repo apply "$d/patch.diff" || exit 3
VERIF_NOEVIDENCE=1 /verif/check "$id" "$tier" > /tmp/seedrun.$$ 2>&1; rc=$?
git -C /repo apply -R "$d/patch.diff"
grep -E "VIOLATION|FAILED|failed|UNDECIDED|VACUOUS|^$id" /tmp/seedrun.$$ | head -20
rm -f /tmp/seedrun.$$
echo "seed $1 check $id $tier exit=$rc"
