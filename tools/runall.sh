#!/bin/bash
# usage: tools/runall.sh [tier] [ids...]: run the claimed checks (4 at a time), print one summary line each.
cd /verif
tier=${1:-quick}; shift
ids=${@:-$(python3 -c "import json;print(' '.join(json.load(open('tools/claims.json'))['claimed']))" 2>/dev/null)}
run() { id=$1; out=$(VERIF_NOEVIDENCE=${VERIF_NOEVIDENCE:-} ./check $id $tier 2>&1); rc=$?; echo "$out" | grep -E "VIOLATION|UNDECIDED|VACUOUS|WARN|KNOWN" | cut -c1-220 | head -8; echo "$out" | tail -1 | cut -c1-200; echo "== $id exit=$rc"; }
export -f run; export tier
echo $ids | tr ' ' '\n' | xargs -P 4 -I{} bash -c 'run {}'
