package main

// Replay of solver models against the real code (go test -overlay). Grown incrementally.

func replayOnRealCode(w *World, pc *PropConfig, r *OblResult, replay map[string]interface{}) bool {
	return false
}
