package main

// Translation of spec expressions (typed with go/types) into SMT terms.

import (
	"fmt"
	"os"
	"go/constant"
	"go/token"
	"go/types"
	"sort"
	"strings"

	"golang.org/x/tools/go/packages"
	"golang.org/x/tools/go/ssa"
)

// SV is a typed spec value.
type SV struct {
	T    *Term
	Ty   types.Type
	Addr *Term // heap address where this value lives (if it is an lvalue)
	Fn   *types.Func // function designator (only as callee)
	Pkg  *types.Package
	IsTy bool
	Low  *Lowered // a pointer known only through (is-nil, pointee value)
}

type Lowered struct {
	isNil, val *Term
	elem       types.Type
}

type SpecEnv struct {
	h     *HeapCtx
	w     *World
	pkg   *packages.Package
	vars  map[string]SV
	st    *State
	old   *State
	pre   *State
	ft    *FuncTr
	loop  *LoopInfo
	depth int
	qn    *int
	side  *[]*Term // ground side facts (e.g. map well-formedness) usable as assumptions
	inQ   int
	pos   token.Pos // program point whose locals are visible (outside loop contexts)
	headSt *State   // state at the head of the innermost enclosing loop (anchored assertions)
	onLocal func(*ssa.Alloc) // called for every local variable of the function a spec expression names
}

func (e *SpecEnv) with(st *State) *SpecEnv {
	n := *e
	n.st = st
	return &n
}

func (e *SpecEnv) bind(name string, v SV) *SpecEnv {
	n := *e
	n.vars = map[string]SV{}
	for k, x := range e.vars {
		n.vars[k] = x
	}
	n.vars[name] = v
	return &n
}

type specErr struct{ msg string }

func (s specErr) Error() string { return s.msg }

func sfail(f string, a ...interface{}) { panic(specErr{fmt.Sprintf(f, a...)}) }

var tBool = types.Typ[types.Bool]
var tInt = types.Typ[types.Int]
var tString = types.Typ[types.String]

// trBool translates a clause to a Bool term; errors are returned.
func (e *SpecEnv) trBool(x Expr) (t *Term, err error) {
	defer func() {
		if r := recover(); r != nil {
			switch v := r.(type) {
			case specErr:
				err = v
			case unsupportedErr:
				err = v
			default:
				panic(r)
			}
		}
	}()
	v := e.tr(x)
	if v.T == nil || v.T.Sort != SBool {
		return nil, specErr{"clause is not boolean"}
	}
	return v.T, nil
}

func (e *SpecEnv) val(v SV) *Term {
	if v.T != nil {
		return v.T
	}
	if v.Addr != nil {
		return e.h.readAt(e.st, v.Addr, v.Ty)
	}
	sfail("expression has no value")
	return nil
}

func (e *SpecEnv) tr(x Expr) SV {
	switch n := x.(type) {
	case *EInt:
		var b strings.Builder
		b.WriteString(n.Val)
		if strings.HasPrefix(n.Val, "0x") {
			var v uint64
			fmt.Sscanf(n.Val, "0x%x", &v)
			return SV{T: BigLit(fmt.Sprintf("%d", v)), Ty: tInt}
		}
		return SV{T: BigLit(n.Val), Ty: tInt}
	case *EStr:
		return SV{T: e.h.d.StrLit(n.Val), Ty: tString}
	case *EBool:
		if n.Val {
			return SV{T: TTrue, Ty: tBool}
		}
		return SV{T: TFalse, Ty: tBool}
	case *ENil:
		return SV{T: TNil, Ty: types.Typ[types.UntypedNil]}
	case *EIdent:
		return e.ident(n.Name)
	case *EOld:
		st := e.old
		if n.Label == "loop" {
			st = e.pre
		}
		if n.Label == "head" {
			st = e.headSt
		}
		if st == nil {
			sfail("old/pre not available here")
		}
		return e.with(st).tr(n.X)
	case *ELet:
		v := e.tr(n.Val)
		if v.T == nil {
			v.T = e.val(v)
		}
		return e.bind(n.Name, v).tr(n.Body)
	case *EUnary:
		return e.unary(n)
	case *EBinary:
		return e.binary(n)
	case *ESel:
		return e.sel(n)
	case *EIndex:
		return e.index(n)
	case *ESlice:
		return e.sliceExpr(n)
	case *ECall:
		return e.call(n)
	case *EQuant:
		return e.quant(n)
	}
	sfail("unsupported spec expression %T", x)
	return SV{}
}

func (e *SpecEnv) ident(name string) SV {
	if v, ok := e.vars[name]; ok {
		return v
	}
	if e.ft != nil {
		if v, ok := e.ft.specIdent(e, name); ok {
			return v
		}
	}
	// package-level object
	if e.pkg != nil {
		if o := e.pkg.Types.Scope().Lookup(name); o != nil {
			return e.object(o)
		}
		if ip := e.w.findImport(e.pkg, name); ip != nil {
			return SV{Pkg: ip}
		}
	}
	if o := types.Universe.Lookup(name); o != nil {
		if tn, ok := o.(*types.TypeName); ok {
			return SV{Ty: tn.Type(), IsTy: true}
		}
	}
	if p, ok := e.w.pkgs[name]; ok && p.Types != nil {
		return SV{Pkg: p.Types}
	}
	sfail("unknown identifier %q", name)
	return SV{}
}

func (e *SpecEnv) object(o types.Object) SV {
	switch x := o.(type) {
	case *types.Const:
		return SV{T: e.constTerm(x.Val(), x.Type()), Ty: x.Type()}
	case *types.TypeName:
		return SV{Ty: x.Type(), IsTy: true}
	case *types.Func:
		return SV{Fn: x}
	case *types.Var:
		// package-level variable: model as a constant address in the heap
		if x.Parent() == x.Pkg().Scope() {
			addr := e.h.globalAddr(x)
			// a variable only its package's initialisation assigns is read from the entry state (as the code does)
			if e.ft != nil && e.ft.init != nil {
				if sp := e.w.prog.ImportedPackage(x.Pkg().Path()); sp != nil {
					if g, ok := sp.Members[x.Name()].(*ssa.Global); ok && e.w.writeOnce(g) {
						return SV{T: e.h.readAt(e.ft.init, addr, x.Type()), Ty: x.Type()}
					}
				}
			}
			return SV{Addr: addr, Ty: x.Type()}
		}
	}
	sfail("unsupported object %s", o)
	return SV{}
}

func (h *HeapCtx) globalAddr(v *types.Var) *Term {
	name := "G_" + sanitize(v.Pkg().Path()+"."+v.Name())
	id := h.d.Const(name, SInt)
	h.d.Raw(name+"$neg", fmt.Sprintf("(assert (< %s 0))", name))
	return PObj(id)
}

func (e *SpecEnv) constTerm(v constant.Value, ty types.Type) *Term {
	switch v.Kind() {
	case constant.Bool:
		if constant.BoolVal(v) {
			return TTrue
		}
		return TFalse
	case constant.String:
		return e.h.d.StrLit(constant.StringVal(v))
	case constant.Int:
		return BigLit(v.ExactString())
	case constant.Float:
		if i := constant.ToInt(v); i.Kind() == constant.Int {
			if b, ok := ty.Underlying().(*types.Basic); ok && b.Info()&types.IsFloat != 0 {
				return &Term{i.ExactString() + ".0", SReal}
			}
			return BigLit(i.ExactString())
		}
	}
	sfail("unsupported constant %s", v)
	return nil
}

func (e *SpecEnv) unary(n *EUnary) SV {
	switch n.Op {
	case "!":
		v := e.tr(n.X)
		return SV{T: Not(e.val(v)), Ty: tBool}
	case "-":
		v := e.tr(n.X)
		return SV{T: mk(SInt, "-", e.val(v)), Ty: v.Ty}
	case "*":
		v := e.tr(n.X)
		if v.Low != nil {
			return SV{T: v.Low.val, Ty: v.Low.elem}
		}
		if tp, ok := v.Ty.(*types.TypeParam); ok {
			if el := typeParamPointerElem(tp); el != nil {
				return SV{Addr: e.val(v), Ty: el}
			}
		}
		pt, ok := v.Ty.Underlying().(*types.Pointer)
		if !ok {
			sfail("deref of non-pointer")
		}
		return SV{Addr: e.val(v), Ty: pt.Elem()}
	case "&":
		v := e.tr(n.X)
		if v.Addr == nil {
			sfail("& of non-addressable spec expression")
		}
		return SV{T: v.Addr, Ty: types.NewPointer(v.Ty)}
	}
	sfail("unary %s", n.Op)
	return SV{}
}

func isStringT(t types.Type) bool {
	b, ok := t.Underlying().(*types.Basic)
	return ok && b.Info()&types.IsString != 0
}

func (e *SpecEnv) binary(n *EBinary) SV {
	switch n.Op {
	case "&&", "||", "==>", "<==>":
		a := e.val(e.tr(n.X))
		b := e.val(e.tr(n.Y))
		if a.Sort != SBool || b.Sort != SBool {
			sfail("boolean operator %s on non-boolean", n.Op)
		}
		switch n.Op {
		case "&&":
			return SV{T: And(a, b), Ty: tBool}
		case "||":
			return SV{T: Or(a, b), Ty: tBool}
		case "==>":
			return SV{T: Implies(a, b), Ty: tBool}
		default:
			return SV{T: mk(SBool, "=", a, b), Ty: tBool}
		}
	case "in":
		k := e.tr(n.X)
		m := e.tr(n.Y)
		if m.Ty == nil {
			if m.T != nil && m.T.Sort.IsArray() && m.T.Sort.V == SBool {
				return SV{T: Select(m.T, e.val(k)), Ty: tBool}
			}
			sfail("'in' on untyped value")
		}
		switch mt := m.Ty.Underlying().(type) {
		case *types.Map:
			return SV{T: e.h.mapHas(e.st, mt, e.val(m), e.val(k)), Ty: tBool}
		case *types.Slice:
			if !isStructT(mt.Elem()) && !isArrayT(mt.Elem()) && !e.w.immutable[types.TypeString(m.Ty, nil)] {
				es := e.w.sortOf(e.h.d, mt.Elem())
				marr := e.h.arr(e.st, memArrName(es), SArray(SPtr, es))
				return SV{T: Select(e.h.elemsOf(marr, e.val(m), es), e.val(k)), Ty: tBool}
			}
			*e.qn++
			jn := fmt.Sprintf("j!%d", *e.qn)
			j := &Term{jn, SInt}
			s := e.val(m)
			el := e.h.readAt(e.st, SlcElemAddr(s, j), mt.Elem())
			body := And(Le(IntLit(0), j), Lt(j, SlcLen(s)), Eq(el, e.val(k)))
			return SV{T: Exists([]Bound{{jn, SInt}}, body), Ty: tBool}
		}
		if m.T != nil && m.T.Sort.IsArray() && m.T.Sort.V == SBool {
			return SV{T: Select(m.T, e.val(k)), Ty: tBool}
		}
		sfail("'in' on unsupported type %v", m.Ty)
	case "==", "!=":
		a := e.tr(n.X)
		b := e.tr(n.Y)
		if a.Low != nil || b.Low != nil {
			lo, other := a, n.Y
			if a.Low == nil {
				lo, other = b, n.X
			}
			if _, isNil := other.(*ENil); !isNil {
				sfail("a function-value argument pointer may only be compared with nil")
			}
			r := lo.Low.isNil
			if n.Op == "!=" {
				r = Not(r)
			}
			return SV{T: r, Ty: tBool}
		}
		at, bt := e.val(a), e.val(b)
		at, bt = e.coerceNil(at, a, bt, b)
		// an interface value compared with a value of concrete type: the concrete side is boxed (as Go does)
		if at.Sort == SIfc && bt.Sort != SIfc && b.Ty != nil {
			bt = e.h.toIface(bt, b.Ty)
		} else if bt.Sort == SIfc && at.Sort != SIfc && a.Ty != nil {
			at = e.h.toIface(at, a.Ty)
		}
		if at.Sort != bt.Sort {
			sfail("comparison of different sorts %s vs %s (%s)", at.Sort.Name, bt.Sort.Name, at.S+" / "+bt.S)
		}
		if at.Sort == SSlc {
			// only nil comparison is meaningful
			if bt.S == TNilSlice.S {
				r := IsNil(SlcArr(at))
				if n.Op == "!=" {
					r = Not(r)
				}
				return SV{T: r, Ty: tBool}
			}
		}
		r := Eq(at, bt)
		if n.Op == "!=" {
			r = Not(r)
		}
		return SV{T: r, Ty: tBool}
	case "<", "<=", ">", ">=":
		a := e.tr(n.X)
		b := e.tr(n.Y)
		at, bt := e.val(a), e.val(b)
		if at.Sort == SStr {
			var r *Term
			switch n.Op {
			case "<":
				r = mk(SBool, "str_lt", at, bt)
			case ">":
				r = mk(SBool, "str_lt", bt, at)
			case "<=":
				r = Not(mk(SBool, "str_lt", bt, at))
			case ">=":
				r = Not(mk(SBool, "str_lt", at, bt))
			}
			return SV{T: r, Ty: tBool}
		}
		return SV{T: mk(SBool, n.Op, at, bt), Ty: tBool}
	case "+", "-", "*", "/", "%":
		a := e.tr(n.X)
		b := e.tr(n.Y)
		at, bt := e.val(a), e.val(b)
		if at.Sort == SStr && n.Op == "+" {
			return SV{T: mk(SStr, "str_cat", at, bt), Ty: a.Ty}
		}
		op := n.Op
		if op == "/" {
			op = "div"
		}
		if op == "%" {
			op = "mod"
		}
		ty := a.Ty
		if _, isb := ty.(*types.Basic); isb && b.Ty != nil {
			ty = b.Ty
		}
		return SV{T: mk(at.Sort, op, at, bt), Ty: ty}
	}
	sfail("binary %s", n.Op)
	return SV{}
}

func (e *SpecEnv) coerceNil(at *Term, a SV, bt *Term, b SV) (*Term, *Term) {
	isNilLit := func(v SV) bool {
		bb, ok := v.Ty.(*types.Basic)
		return ok && bb.Kind() == types.UntypedNil
	}
	if isNilLit(b) && !isNilLit(a) {
		bt = e.nilOf(at.Sort)
	}
	if isNilLit(a) && !isNilLit(b) {
		at = e.nilOf(bt.Sort)
	}
	return at, bt
}

func (e *SpecEnv) nilOf(s *Sort) *Term {
	switch s {
	case SPtr:
		return TNil
	case SSlc:
		return TNilSlice
	case SIfc:
		return &Term{"NilI", SIfc}
	case SFn:
		return e.h.d.Const("fn_nil", SFn)
	}
	sfail("nil of sort %s", s.Name)
	return nil
}

func (e *SpecEnv) sel(n *ESel) SV {
	x := e.tr(n.X)
	if x.Pkg != nil {
		o := x.Pkg.Scope().Lookup(n.Name)
		if o == nil {
			sfail("%s.%s not found", x.Pkg.Name(), n.Name)
		}
		return e.object(o)
	}
	if x.IsTy {
		sfail("selector on type")
	}
	if x.Ty == nil {
		sfail("selector on untyped value")
	}
	obj, path, _ := types.LookupFieldOrMethod(x.Ty, true, nil, n.Name)
	if obj == nil && e.pkg != nil {
		obj, path, _ = types.LookupFieldOrMethod(x.Ty, true, e.pkg.Types, n.Name)
	}
	if obj == nil {
		// unexported field from another package: search manually
		obj, path = lookupFieldAnyPkg(x.Ty, n.Name)
	}
	if obj == nil {
		sfail("no field or method %s on %s", n.Name, x.Ty)
	}
	if f, ok := obj.(*types.Func); ok {
		// method designator; receiver value kept
		return SV{Fn: f, T: x.T, Ty: x.Ty, Addr: x.Addr}
	}
	cur := x
	for _, idx := range path {
		cur = e.fieldStep(cur, idx)
	}
	return cur
}

func lookupFieldAnyPkg(t types.Type, name string) (types.Object, []int) {
	t = derefType(t)
	st, ok := t.Underlying().(*types.Struct)
	if !ok {
		return nil, nil
	}
	for i := 0; i < st.NumFields(); i++ {
		if st.Field(i).Name() == name {
			return st.Field(i), []int{i}
		}
	}
	for i := 0; i < st.NumFields(); i++ {
		if st.Field(i).Embedded() {
			if o, p := lookupFieldAnyPkg(st.Field(i).Type(), name); o != nil {
				return o, append([]int{i}, p...)
			}
		}
	}
	return nil, nil
}

func (e *SpecEnv) fieldStep(x SV, idx int) SV {
	ty := x.Ty
	if pt, ok := ty.Underlying().(*types.Pointer); ok {
		// auto-deref
		base := e.val(x)
		sty := pt.Elem()
		st := sty.Underlying().(*types.Struct)
		fty := st.Field(idx).Type()
		if isStructT(fty) {
			return SV{Addr: PFld(base, idx), Ty: fty}
		}
		return SV{T: e.h.readField(e.st, base, sty, idx), Ty: fty, Addr: nil}
	}
	st, ok := ty.Underlying().(*types.Struct)
	if !ok {
		sfail("field access on non-struct %s", ty)
	}
	fty := st.Field(idx).Type()
	if x.T == nil && x.Addr != nil {
		if isStructT(fty) {
			return SV{Addr: PFld(x.Addr, idx), Ty: fty}
		}
		return SV{T: e.h.readField(e.st, x.Addr, ty, idx), Ty: fty}
	}
	si := e.w.structInfo(ty)
	if !si.has(idx) {
		sfail("field %s.%s not in relevance set", si.Key, st.Field(idx).Name())
	}
	return SV{T: mk(e.w.sortOf(e.h.d, fty), si.sel(idx), x.T), Ty: fty}
}

func (e *SpecEnv) index(n *EIndex) SV {
	x := e.tr(n.X)
	i := e.tr(n.I)
	if x.T != nil && x.Ty == nil && x.T.Sort.IsArray() {
		return SV{T: Select(x.T, e.val(i)), Ty: nil}
	}
	switch t := x.Ty.Underlying().(type) {
	case *types.Map:
		return SV{T: e.h.mapGet(e.st, t, e.val(x), e.val(i)), Ty: t.Elem()}
	case *types.Slice:
		if e.w.immutable[types.TypeString(x.Ty, nil)] {
			return SV{T: e.h.immAt(e.val(x), e.val(i), t.Elem()), Ty: t.Elem()}
		}
		addr := SlcElemAddr(e.val(x), e.val(i))
		if isStructT(t.Elem()) {
			return SV{Addr: addr, Ty: t.Elem()}
		}
		return SV{T: e.h.readAt(e.st, addr, t.Elem()), Ty: t.Elem(), Addr: addr}
	case *types.Array:
		return SV{T: Select(e.val(x), e.val(i)), Ty: t.Elem()}
	case *types.Pointer:
		if at, ok := t.Elem().Underlying().(*types.Array); ok {
			arr := e.h.readAt(e.st, e.val(x), t.Elem())
			return SV{T: Select(arr, e.val(i)), Ty: at.Elem()}
		}
	}
	sfail("index on %s", x.Ty)
	return SV{}
}

func (e *SpecEnv) sliceExpr(n *ESlice) SV {
	x := e.tr(n.X)
	st, ok := x.Ty.Underlying().(*types.Slice)
	if !ok {
		sfail("slice expression on %s", x.Ty)
	}
	_ = st
	s := e.val(x)
	lo := IntLit(0)
	hi := SlcLen(s)
	if n.Lo != nil {
		lo = e.val(e.tr(n.Lo))
	}
	if n.Hi != nil {
		hi = e.val(e.tr(n.Hi))
	}
	return SV{T: SlcMk(SlcArr(s), Add(SlcOff(s), lo), Sub(hi, lo), Sub(SlcCap(s), lo)), Ty: x.Ty}
}

func (e *SpecEnv) quant(n *EQuant) SV {
	env := e
	var bs []Bound
	env.inQ++
	for _, v := range n.Vars {
		ty, err := e.w.evalType(e.pkg, v.TypeText)
		if err != nil {
			sfail("quantifier type %q: %v", v.TypeText, err)
		}
		*e.qn++
		bn := fmt.Sprintf("%s!q%d", sanitize(v.Name), *e.qn)
		srt := e.w.sortOf(e.h.d, ty)
		bs = append(bs, Bound{bn, srt})
		env = env.bind(v.Name, SV{T: &Term{bn, srt}, Ty: ty})
	}
	body := env.val(env.tr(n.Body))
	if body.Sort != SBool {
		sfail("quantifier body not boolean")
	}
	var pats [][]*Term
	for _, tr := range n.Triggers {
		var p []*Term
		for _, t := range tr {
			p = append(p, env.val(env.tr(t)))
		}
		pats = append(pats, p)
	}
	if n.Forall {
		return SV{T: Forall(bs, body, pats...), Ty: tBool}
	}
	return SV{T: Exists(bs, body, pats...), Ty: tBool}
}

func (e *SpecEnv) call(n *ECall) SV {
	// builtin spec functions
	if id, ok := n.Fun.(*EIdent); ok {
		if _, shadow := e.vars[id.Name]; !shadow {
			switch id.Name {
			case "len":
				x := e.tr(n.Args[0])
				switch t := x.Ty.Underlying().(type) {
				case *types.Slice:
					return SV{T: SlcLen(e.val(x)), Ty: tInt}
				case *types.Map:
					m := e.val(x)
					if e.side != nil && e.inQ == 0 {
						*e.side = append(*e.side, e.h.mapWF(e.st, t, m))
					}
					return SV{T: e.h.mapCard(e.st, t, m), Ty: tInt}
				case *types.Basic:
					return SV{T: mk(SInt, "str_len", e.val(x)), Ty: tInt}
				case *types.Array:
					return SV{T: IntLit(t.Len()), Ty: tInt}
				}
				sfail("len of %s", x.Ty)
			case "cap":
				x := e.tr(n.Args[0])
				return SV{T: SlcCap(e.val(x)), Ty: tInt}
			case "ite":
				c := e.val(e.tr(n.Args[0]))
				a := e.tr(n.Args[1])
				b := e.tr(n.Args[2])
				at, bt := e.val(a), e.val(b)
				at, bt = e.coerceNil(at, a, bt, b)
				ty := a.Ty
				if bb, ok := ty.(*types.Basic); ok && bb.Kind() == types.UntypedNil {
					ty = b.Ty
				}
				return SV{T: Ite(c, at, bt), Ty: ty}
			case "fresh":
				p := e.val(e.tr(n.Args[0]))
				if p.Sort == SSlc {
					p = SlcArr(p)
				}
				return SV{T: And(Not(IsNil(p)), Le(e.h.nextID(e.old), PObjID(p))), Ty: tBool}
			case "allocated":
				p := e.val(e.tr(n.Args[0]))
				if p.Sort == SSlc {
					p = SlcArr(p)
				}
				return SV{T: Or(IsNil(p), Lt(PObjID(p), e.h.nextID(e.st))), Ty: tBool}
			case "iter", "idx", "visited", "curkey":
				if e.ft == nil || len(n.Args) != 1 {
					sfail("%s(n) needs a loop ordinal", id.Name)
				}
				lit, ok := n.Args[0].(*EInt)
				if !ok {
					sfail("%s(n): n must be a literal", id.Name)
				}
				var ord int
				fmt.Sscanf(lit.Val, "%d", &ord)
				l := e.ft.loopByOrdinal(ord)
				if l == nil {
					sfail("no loop %d", ord)
				}
				switch id.Name {
				case "iter":
					if l.RangeIdx == nil {
						sfail("loop %d is not an index range loop", ord)
					}
					return SV{T: Add(e.ft.localGet(e.st, l.RangeIdx), IntLit(1)), Ty: tInt}
				case "idx":
					if l.RangeIdx == nil {
						sfail("loop %d is not an index range loop", ord)
					}
					return SV{T: e.ft.localGet(e.st, l.RangeIdx), Ty: tInt}
				case "curkey":
					// the key of the current iteration of map range loop n (already a member of visited(n))
					if l.RangeIter == nil {
						sfail("loop %d is not a map range loop", ord)
					}
					mt := l.RangeIter.X.Type().Underlying().(*types.Map)
					return SV{T: e.h.ghostVar(e.st, iterKeyName(l.RangeIter), e.w.sortOf(e.h.d, mt.Key())), Ty: mt.Key()}
				default:
					if l.RangeIter == nil {
						sfail("loop %d is not a map range loop", ord)
					}
					return SV{T: e.ft.iterVisited(e.st, l.RangeIter)}
				}
			case "toBytes":
				x := e.val(e.tr(n.Args[0]))
				fn := "conv_" + x.Sort.Mangle() + "_" + SSlc.Mangle()
				e.h.d.Fun(fn, []*Sort{x.Sort}, SSlc)
				return SV{T: mk(SSlc, fn, x), Ty: types.NewSlice(types.Typ[types.Byte])}
			case "arrSlice":
				x := e.tr(n.Args[0])
				xt := e.val(x)
				at, ok := x.Ty.Underlying().(*types.Array)
				if !ok {
					sfail("arrSlice: not an array")
				}
				return SV{T: e.h.arrSlice(xt), Ty: types.NewSlice(at.Elem())}
			case "gint":
				// gint("name", ptr): integer ghost field of an object (lives in the heap, see modifies gint("name"))
				nm, ok := n.Args[0].(*EStr)
				if !ok || len(n.Args) != 2 {
					sfail("gint(\"name\", ptr)")
				}
				p := e.val(e.tr(n.Args[1]))
				arr := e.h.arr(e.st, "G_"+sanitize(nm.Val), SArray(SPtr, SInt))
				return SV{T: Select(arr, p), Ty: tInt}
			case "apply":
				// apply(f, lowered args...): application of a function value on already lowered arguments
				f := e.tr(n.Args[0])
				sig, ok := f.Ty.Underlying().(*types.Signature)
				if !ok {
					sfail("apply: first argument is not a function value")
				}
				var low []*Term
				for _, a := range n.Args[1:] {
					low = append(low, e.val(e.tr(a)))
				}
				return SV{T: e.h.fnAppLowered(e.val(f), sig, low), Ty: sig.Results().At(0).Type()}
			case "dom":
				x := e.tr(n.Args[0])
				mt, ok := x.Ty.Underlying().(*types.Map)
				if !ok {
					sfail("dom of non-map")
				}
				return SV{T: e.h.mapDom(e.st, mt, e.val(x))}
			case "held":
				// held(mutexExpr) / heldR(mutexExpr)
				return e.heldCall(n, false)
			case "heldR":
				return e.heldCall(n, true)
			case "lockframe":
				// lockframe(m1, ...): the lock state changed at most at the listed mutexes (w.r.t. old)
				q := &Term{"lq", SPtr}
				var conds []*Term
				for _, a := range n.Args {
					x := e.tr(a)
					var addr *Term
					if x.Addr != nil {
						addr = x.Addr
					} else if _, ok := x.Ty.Underlying().(*types.Pointer); ok {
						addr = e.val(x)
					} else {
						sfail("lockframe: not a mutex location")
					}
					conds = append(conds, Not(Eq(q, addr)))
				}
				cur := e.h.ghostVar(e.st, "$held", SArray(SPtr, SInt))
				was := e.h.ghostVar(e.old, "$held", SArray(SPtr, SInt))
				return SV{T: Forall([]Bound{{"lq", SPtr}}, Implies(And(conds...), Eq(Select(cur, q), Select(was, q))), []*Term{Select(cur, q)}), Ty: tBool}
			case "lockstate":
				// lockstate(m): 0 free, 1 read-locked, 2 write-locked (by the executing thread)
				x := e.tr(n.Args[0])
				var addr *Term
				if x.Addr != nil {
					addr = x.Addr
				} else if _, ok := x.Ty.Underlying().(*types.Pointer); ok {
					addr = e.val(x)
				} else {
					sfail("lockstate: not a mutex location")
				}
				return SV{T: Select(e.h.ghostVar(e.st, "$held", SArray(SPtr, SInt)), addr), Ty: tInt}
			case "mapval":
				// mapval(m, k): the raw stored value (meaningful only when k in m); usable as a trigger
				m := e.tr(n.Args[0])
				mt, ok := m.Ty.Underlying().(*types.Map)
				if !ok {
					sfail("mapval: not a map")
				}
				ma := e.h.mapArrs(mt)
				return SV{T: Select(Select(e.h.arr(e.st, ma.val, ma.valS), e.val(m)), e.val(e.tr(n.Args[1]))), Ty: mt.Elem()}
			case "mapdom":
				// mapdom(m, k): the raw domain bit (usable as a trigger)
				m := e.tr(n.Args[0])
				mt, ok := m.Ty.Underlying().(*types.Map)
				if !ok {
					sfail("mapdom: not a map")
				}
				ma := e.h.mapArrs(mt)
				return SV{T: Select(Select(e.h.arr(e.st, ma.dom, ma.domS), e.val(m)), e.val(e.tr(n.Args[1]))), Ty: tBool}
			case "distinct":
				var ts []*Term
				for _, a := range n.Args {
					ts = append(ts, e.val(e.tr(a)))
				}
				if len(ts) < 2 {
					return SV{T: TTrue, Ty: tBool}
				}
				return SV{T: mk(SBool, "distinct", ts...), Ty: tBool}
			case "called":
				id, ok := n.Args[0].(*EIdent)
				if !ok || e.ft == nil {
					sfail("called(name): a callee name is expected")
				}
				return SV{T: e.h.ghostVar(e.st, "$called_"+id.Name, SBool), Ty: tBool}
			case "sameArray":
				a := e.val(e.tr(n.Args[0]))
				b := e.val(e.tr(n.Args[1]))
				return SV{T: Eq(SlcArr(a), SlcArr(b)), Ty: tBool}
			case "sameSlice":
				a := e.val(e.tr(n.Args[0]))
				b := e.val(e.tr(n.Args[1]))
				return SV{T: Eq(a, b), Ty: tBool}
			}
			// pred / fun definitions
			if pd := e.lookupPred(id.Name); pd != nil {
				return e.inlinePred(pd, n.Args)
			}
			if uf, ok := e.w.ufuns[id.Name]; ok {
				return e.ufunApp(uf, n.Args)
			}
		}
	}
	if sl, ok := n.Fun.(*ESel); ok {
		if id, ok := sl.X.(*EIdent); ok {
			if _, isVar := e.vars[id.Name]; !isVar {
				isPkg := false
				if e.ft != nil {
					if _, ok := e.ft.specIdent(e, id.Name); ok {
						isVar = true
					}
				}
				if !isVar {
					if e.w.findImport(e.pkg, id.Name) != nil || e.w.pkgs[id.Name] != nil {
						isPkg = true
					}
				}
				if isPkg {
					if pd := e.lookupPred(sl.Name); pd != nil {
						return e.inlinePred(pd, n.Args)
					}
					if uf, ok := e.w.ufuns[sl.Name]; ok {
						return e.ufunApp(uf, n.Args)
					}
				}
			}
		}
	}
	f := e.tr(n.Fun)
	if f.IsTy {
		// conversion
		if len(n.Args) != 1 {
			sfail("conversion needs one argument")
		}
		a := e.tr(n.Args[0])
		at := e.val(a)
		ts := e.w.sortOf(e.h.d, f.Ty)
		if ts == at.Sort {
			return SV{T: at, Ty: f.Ty}
		}
		if ts == SReal && at.Sort == SInt {
			return SV{T: mk(SReal, "to_real", at), Ty: f.Ty}
		}
		sfail("unsupported conversion to %s", f.Ty)
	}
	if f.Fn != nil {
		return e.pureCall(f, n.Args)
	}
	if f.T != nil && f.T.Sort == SFn {
		sig, ok := f.Ty.Underlying().(*types.Signature)
		if !ok {
			sfail("call of non-function")
		}
		var args []*Term
		for _, a := range n.Args {
			args = append(args, e.val(e.tr(a)))
		}
		return SV{T: e.h.fnApp(e.st, f.T, sig, args), Ty: sig.Results().At(0).Type()}
	}
	sfail("unsupported call in spec")
	return SV{}
}

func (e *SpecEnv) heldCall(n *ECall, read bool) SV {
	x := e.tr(n.Args[0])
	var addr *Term
	if x.Addr != nil {
		addr = x.Addr
	} else if _, ok := x.Ty.Underlying().(*types.Pointer); ok {
		addr = e.val(x)
	} else {
		sfail("held: not a mutex location")
	}
	a := e.h.ghostVar(e.st, "$held", SArray(SPtr, SInt))
	v := Select(a, addr)
	if read {
		return SV{T: mk(SBool, ">=", v, IntLit(1)), Ty: tBool}
	}
	return SV{T: Eq(v, IntLit(2)), Ty: tBool}
}

func (e *SpecEnv) lookupPred(name string) *PredDef {
	if e.pkg != nil {
		if p, ok := e.w.preds[e.pkg.PkgPath+"\x00"+name]; ok {
			return p
		}
	}
	if p, ok := e.w.preds["\x00"+name]; ok {
		return p
	}
	return nil
}

func (e *SpecEnv) inlinePred(pd *PredDef, args []Expr) SV {
	if len(args) != len(pd.Params) {
		sfail("pred %s: expected %d arguments", pd.Name, len(pd.Params))
	}
	if pd.Opaque {
		return e.opaquePred(pd, args)
	}
	if e.depth > 12 {
		sfail("pred %s: inlining too deep (recursive?)", pd.Name)
	}
	ppkg := e.w.pkgs[pd.Pkg]
	if ppkg == nil {
		ppkg = e.pkg
	}
	n := *e
	n.pkg = ppkg
	n.depth = e.depth + 1
	n.vars = map[string]SV{}
	for i, p := range pd.Params {
		ty, err := e.w.evalType(ppkg, p.TypeText)
		if err != nil {
			sfail("pred %s param %s: %v", pd.Name, p.Name, err)
		}
		a := e.tr(args[i])
		at := a.T
		if at == nil && a.Addr != nil && !isStructT(ty) {
			at = e.val(a)
		}
		if at != nil {
			at, _ = e.coerceNil(at, a, e.nilOfOrSelf(at, ty), SV{Ty: ty})
		}
		n.vars[p.Name] = SV{T: at, Ty: ty, Addr: a.Addr}
	}
	r := n.tr(pd.Body)
	return SV{T: n.val(r), Ty: r.Ty}
}

func (e *SpecEnv) nilOfOrSelf(t *Term, ty types.Type) *Term { return t }

func (e *SpecEnv) ufunApp(uf *UFunDecl, args []Expr) SV {
	if len(args) != len(uf.Params) {
		sfail("ufun %s: expected %d arguments", uf.Name, len(uf.Params))
	}
	upkg := e.w.pkgs[uf.Pkg]
	if upkg == nil {
		upkg = e.pkg
	}
	var sorts []*Sort
	var ats []*Term
	inst := ""
	for i, pt := range uf.Params {
		ty, err := e.w.evalType(upkg, pt)
		if err != nil {
			sfail("ufun %s: %v", uf.Name, err)
		}
		s := e.w.sortOf(e.h.d, ty)
		sorts = append(sorts, s)
		a := e.tr(args[i])
		at := e.val(a)
		if at.Sort != s {
			if bb, ok := a.Ty.(*types.Basic); ok && bb.Kind() == types.UntypedNil {
				at = e.nilOf(s)
			} else if _, isTP := ty.(*types.TypeParam); isTP {
				// a spec function over a type parameter, used at an instance: one function symbol per instance sort
				s = at.Sort
				sorts[len(sorts)-1] = s
				inst += "__" + sanitize(s.Name)
			} else {
				sfail("ufun %s arg %d: sort %s, expected %s", uf.Name, i, at.Sort.Name, s.Name)
			}
		}
		if _, isTP := ty.(*types.TypeParam); isTP && at.Sort == s && !strings.HasPrefix(s.Name, "TP_") && !strings.Contains(inst, "__"+sanitize(s.Name)) {
			inst += "__" + sanitize(s.Name) // (the parameter's sort was already substituted by the call-site instantiation)
		}
		ats = append(ats, at)
	}
	rty, err := e.w.evalType(upkg, uf.Res)
	if err != nil {
		sfail("ufun %s result: %v", uf.Name, err)
	}
	rs := e.w.sortOf(e.h.d, rty)
	name := "uf_" + sanitize(uf.Name) + inst
	e.h.d.Fun(name, sorts, rs)
	if rs == SSlc && len(ats) > 0 && e.h.emit != nil {
		// a slice-valued spec function returns a well-formed slice value (0 <= len <= cap)
		if e.h.ufunWF == nil {
			e.h.ufunWF = map[string]bool{}
		}
		if !e.h.ufunWF[name] {
			e.h.ufunWF[name] = true
			var bs []Bound
			var vs []*Term
			for i, srt := range sorts {
				bn := fmt.Sprintf("u!%s!%d", sanitize(uf.Name), i)
				bs = append(bs, Bound{bn, srt})
				vs = append(vs, &Term{bn, srt})
			}
			app := mk(rs, name, vs...)
			e.h.emit(Forall(bs, And(Le(IntLit(0), SlcLen(app)), Le(SlcLen(app), SlcCap(app))), []*Term{app}))
		}
	}
	if len(ats) == 0 {
		return SV{T: &Term{name, rs}, Ty: rty}
	}
	return SV{T: mk(rs, name, ats...), Ty: rty}
}

// pureCall: spec-level call of a Go function/method whose contract is marked pure.
func (e *SpecEnv) pureCall(f SV, args []Expr) SV {
	full := f.Fn.FullName()
	c := e.w.contractFor(full)
	if c == nil || !c.Pure {
		sfail("spec call of %s: no pure contract", full)
	}
	sig := f.Fn.Type().(*types.Signature)
	var ats []*Term
	if sig.Recv() != nil {
		rt := sig.Recv().Type()
		recv := SV{T: f.T, Ty: f.Ty, Addr: f.Addr}
		// adapt pointer/value receivers
		_, wantPtr := rt.Underlying().(*types.Pointer)
		_, havePtr := f.Ty.Underlying().(*types.Pointer)
		switch {
		case wantPtr && !havePtr:
			if recv.Addr == nil {
				sfail("spec call %s: receiver not addressable", full)
			}
			ats = append(ats, recv.Addr)
		case !wantPtr && havePtr:
			ats = append(ats, e.h.readAt(e.st, e.val(recv), rt))
		default:
			ats = append(ats, e.val(recv))
		}
	}
	for i, a := range args {
		av := e.tr(a)
		at := e.val(av)
		if i < sig.Params().Len() {
			ps := e.w.sortOf(e.h.d, sig.Params().At(i).Type())
			if at.Sort != ps {
				if bb, ok := av.Ty.(*types.Basic); ok && bb.Kind() == types.UntypedNil {
					at = e.nilOf(ps)
				} else if ps == SIfc && av.Ty != nil {
					at = e.h.toIface(at, av.Ty) // implicit conversion to an interface parameter
				}
			}
		}
		ats = append(ats, at)
	}
	if sig.Results().Len() != 1 {
		sfail("spec call %s: needs exactly one result", full)
	}
	rty := sig.Results().At(0).Type()
	return SV{T: e.h.pureApp(full, ats, rty), Ty: rty}
}

func (h *HeapCtx) pureApp(full string, args []*Term, rty types.Type) *Term {
	rs := h.w.sortOf(h.d, rty)
	var sorts []*Sort
	for _, a := range args {
		sorts = append(sorts, a.Sort)
	}
	name := "pf_" + sanitize(full)
	h.d.Fun(name, sorts, rs)
	if len(args) == 0 {
		return &Term{name, rs}
	}
	return mk(rs, name, args...)
}

// fnApp: application of a function value assumed pure. Pointer-to-basic arguments are lowered
// to (isnil, pointee) so the result depends on the pointed-to value, not the address.
func (h *HeapCtx) fnApp(st *State, fn *Term, sig *types.Signature, args []*Term) *Term {
	var lowered []*Term
	for i, a := range args {
		if el := loweredElem(sig.Params().At(i).Type()); el != nil {
			isn := IsNil(a)
			pv := Ite(isn, h.w.zero(h.d, el), h.readAt(st, a, el))
			lowered = append(lowered, isn, pv)
			continue
		}
		lowered = append(lowered, a)
	}
	return h.fnAppLowered(fn, sig, lowered)
}

// loweredElem: pointee type if parameter type t is a pointer to a basic type (passed by value to app)
func loweredElem(t types.Type) types.Type {
	if p, ok := t.Underlying().(*types.Pointer); ok {
		if _, isb := p.Elem().Underlying().(*types.Basic); isb {
			return p.Elem()
		}
	}
	return nil
}

func (h *HeapCtx) fnAppLowered(fn *Term, sig *types.Signature, lowered []*Term) *Term {
	sorts := []*Sort{SFn}
	name := "app"
	for _, a := range lowered {
		sorts = append(sorts, a.Sort)
		name += "_" + a.Sort.Mangle()
	}
	rs := h.w.sortOf(h.d, sig.Results().At(0).Type())
	name += "__" + rs.Mangle()
	h.d.Fun(name, sorts, rs)
	return mk(rs, name, append([]*Term{fn}, lowered...)...)
}

var _ = ssa.NaiveForm

// opaquePred: an application of a predicate hidden behind an uninterpreted symbol. The symbol is
// shared by all applications whose body (in their respective heap states) is syntactically the same;
// its definition is available to the solver as a quantified axiom triggered on the symbol.
func (e *SpecEnv) opaquePred(pd *PredDef, args []Expr) SV {
	ppkg := e.w.pkgs[pd.Pkg]
	if ppkg == nil {
		ppkg = e.pkg
	}
	// 1. body over canonical bound variables
	n := *e
	n.pkg = ppkg
	n.depth = e.depth + 1
	n.vars = map[string]SV{}
	cnt := 1000000
	n.qn = &cnt
	n.side = nil
	var bs []Bound
	var sorts []*Sort
	var tys []types.Type
	for i, p := range pd.Params {
		ty, err := e.w.evalType(ppkg, p.TypeText)
		if err != nil {
			sfail("pred %s param %s: %v", pd.Name, p.Name, err)
		}
		srt := e.w.sortOf(e.h.d, ty)
		bn := fmt.Sprintf("o!%s!%d", sanitize(pd.Name), i)
		bs = append(bs, Bound{bn, srt})
		sorts = append(sorts, srt)
		tys = append(tys, ty)
		n.vars[p.Name] = SV{T: &Term{bn, srt}, Ty: ty}
	}
	savedLog := e.h.accessLog
	e.h.accessLog = map[string]string{}
	body := n.val(n.tr(pd.Body))
	bodyArrays := e.h.accessLog
	e.h.accessLog = savedLog
	if savedLog != nil {
		for k, v := range bodyArrays {
			savedLog[k] = v
		}
	}
	if body.Sort != SBool {
		sfail("opaque pred %s: body is not boolean", pd.Name)
	}
	// 2. symbol keyed by the body text
	if e.h.opaque == nil {
		e.h.opaque = map[string]string{}
	}
	key := pd.Pkg + "." + pd.Name + "|" + body.S
	sym, ok := e.h.opaque[key]
	if !ok {
		sym = fmt.Sprintf("P_%s_%d", sanitize(pd.Name), len(e.h.opaque))
		e.h.opaque[key] = sym
		e.h.d.Fun(sym, sorts, SBool)
		var vs []*Term
		for _, b := range bs {
			vs = append(vs, &Term{b.Name, b.Sort})
		}
		app := mk(SBool, sym, vs...)
		if len(vs) == 0 {
			app = &Term{sym, SBool}
			if e.h.emit != nil {
				e.h.emit(mk(SBool, "=", app, body))
			}
		} else if e.h.emit != nil {
			e.h.emit(Forall(bs, mk(SBool, "=", app, body), []*Term{app}))
		}
		e.h.stableUnderFresh(pd, sym, sorts, bodyArrays)
	}
	// 3. application
	var ats []*Term
	for i, a := range args {
		av := e.tr(a)
		at := e.val(av)
		if at.Sort != sorts[i] {
			if bb, ok := av.Ty.(*types.Basic); ok && bb.Kind() == types.UntypedNil {
				at = e.nilOf(sorts[i])
			} else {
				sfail("opaque pred %s arg %d: sort %s, expected %s", pd.Name, i, at.Sort.Name, sorts[i].Name)
			}
		}
		ats = append(ats, at)
	}
	_ = tys
	if len(ats) == 0 {
		return SV{T: &Term{sym, SBool}, Ty: tBool}
	}
	return SV{T: mk(SBool, sym, ats...), Ty: tBool}
}

// stableUnderFresh: a new symbol of an opaque predicate whose body reads array versions that differ from
// those of an earlier symbol only by fresh-only frames (havocs that keep every cell of objects allocated
// before) takes the same value on arguments allocated before. Meta-lemma of the encoding (trusted): the
// heap is closed under allocation, so everything reachable from old objects is unchanged.
func (h *HeapCtx) stableUnderFresh(pd *PredDef, sym string, sorts []*Sort, arrays map[string]string) {
	key := pd.Pkg + "." + pd.Name
	if h.opaqueSyms == nil {
		h.opaqueSyms = map[string][]*opaqueSym{}
	}
	defer func() {
		h.opaqueSyms[key] = append(h.opaqueSyms[key], &opaqueSym{sym, arrays, sorts})
	}()
	if h.emit == nil || len(sorts) == 0 {
		return
	}
	prev := h.opaqueSyms[key]
	for pi := len(prev) - 1; pi >= 0; pi-- {
		p := prev[pi]
		if len(p.arrays) != len(arrays) {
			continue
		}
		var bound *Term
		ok := true
		differs := false
		// chain(from, to): follow the fresh-frame chain from the newer version back to the older one
		var hopConds []*Term
		chain := func(from, to string) (*Term, bool) {
			var bd *Term
			var cs []*Term
			t := from
			for steps := 0; steps < 64; steps++ {
				fp, isFresh := h.freshFrom[t]
				if !isFresh {
					return nil, false
				}
				bd = fp.next // the earliest hop is reached last: it has the smallest counter
				if fp.cond != nil {
					cs = append(cs, fp.cond)
				}
				t = fp.old.S
				if t == to {
					hopConds = append(hopConds, cs...)
					return bd, true
				}
			}
			return nil, false
		}
		for _, name := range sortedKeysS(arrays) {
			cur := arrays[name]
			old, has := p.arrays[name]
			if !has {
				ok = false
				break
			}
			if old == cur {
				continue
			}
			differs = true
			// the earlier symbol may read the newer state (old(...) used after the current-state form): both directions
			bd, found := chain(cur, old)
			if !found {
				bd, found = chain(old, cur)
			}
			if !found {
				if os.Getenv("GOVC_DEBUG_STABLE") != "" {
					fmt.Fprintf(os.Stderr, "stable %s: %s vs %s: no chain for %s (%s -> %s)\n", pd.Name, sym, p.sym, name, cur, old)
				}
				ok = false
				break
			}
			// the guard must hold for the oldest state involved: keep the smallest counter (first hop of either chain)
			if bound == nil {
				bound = bd
			} else {
				bound = mk(SInt, "ite", Lt(bd, bound), bd, bound)
			}
		}
		if !ok || !differs || bound == nil {
			continue
		}
		var bs []Bound
		var vs []*Term
		var guards []*Term
		seenC := map[string]bool{}
		for _, c := range hopConds {
			if !seenC[c.S] {
				seenC[c.S] = true
				guards = append(guards, c)
			}
		}
		for i, srt := range sorts {
			bn := fmt.Sprintf("sf!%d", i)
			bs = append(bs, Bound{bn, srt})
			v := &Term{bn, srt}
			vs = append(vs, v)
			switch srt {
			case SPtr:
				guards = append(guards, Or(IsNil(v), Lt(PObjID(v), bound)))
			case SSlc:
				guards = append(guards, Or(IsNil(SlcArr(v)), Lt(PObjID(SlcArr(v)), bound)))
			}
		}
		a2 := mk(SBool, sym, vs...)
		a1 := mk(SBool, p.sym, vs...)
		h.emit(Forall(bs, Implies(And(guards...), mk(SBool, "=", a2, a1)), []*Term{a2}, []*Term{a1}))
		h.w.assume("opaque predicates are stable under calls and loops that write only freshly allocated objects (meta-lemma of the heap encoding)")
		return
	}
}

func sortedKeysS(m map[string]string) []string {
	out := make([]string, 0, len(m))
	for k := range m {
		out = append(out, k)
	}
	sort.Strings(out)
	return out
}
