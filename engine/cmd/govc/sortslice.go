package main

// Native model of sort.Slice(x, less), parameterised by a relation on element values that the calling
// function's contract names:   //@ call sort.Slice with less(a, b) := <expr over a, b and locals>
// Obligations on the caller: the closure's contract computes exactly that relation on the slice's
// (arbitrarily permuted) contents; the relation is irreflexive and transitive.
// Assumed of the library in return: the slice is afterwards a permutation of its former contents and
// no element is in relation with an earlier one.

import (
	"fmt"
	"go/token"
	"go/types"
	"strings"

	"golang.org/x/tools/go/ssa"
)

type relDirective struct {
	a, b string
	body Expr
	text string
}

func parseRelDirective(text string) (*relDirective, error) {
	// "with less(a, b) := expr"
	t := strings.TrimSpace(text)
	if !strings.HasPrefix(t, "with ") {
		return nil, fmt.Errorf("expected 'with less(a, b) := expr'")
	}
	t = strings.TrimSpace(t[5:])
	i := strings.Index(t, ":=")
	if i < 0 {
		return nil, fmt.Errorf("expected ':='")
	}
	head, body := strings.TrimSpace(t[:i]), strings.TrimSpace(t[i+2:])
	lp, rp := strings.Index(head, "("), strings.LastIndex(head, ")")
	if lp < 0 || rp < lp {
		return nil, fmt.Errorf("malformed relation header")
	}
	ps := strings.Split(head[lp+1:rp], ",")
	if len(ps) != 2 {
		return nil, fmt.Errorf("relation needs two parameters")
	}
	e, err := ParseExpr(body)
	if err != nil {
		return nil, err
	}
	return &relDirective{a: strings.TrimSpace(ps[0]), b: strings.TrimSpace(ps[1]), body: e, text: body}, nil
}

func (ft *FuncTr) sortSlice(st *State, at *Term, in ssa.Instruction, c *ssa.CallCommon, args []Val) (Val, error) {
	pos := in.Pos()
	dtext, ok := ft.c.CallWith["sort.Slice"]
	if !ok {
		return Val{}, unsupported("sort.Slice needs a 'call sort.Slice with less(a, b) := ...' directive in the caller's contract")
	}
	rel, err := parseRelDirective(dtext)
	if err != nil {
		return Val{}, fmt.Errorf("call sort.Slice directive: %v", err)
	}
	mi, ok := c.Args[0].(*ssa.MakeInterface)
	if !ok {
		return Val{}, unsupported("sort.Slice on a non-literal interface value")
	}
	slt, ok := mi.X.Type().Underlying().(*types.Slice)
	if !ok {
		return Val{}, unsupported("sort.Slice on non-slice")
	}
	s := ft.term(mi.X)
	elemT := slt.Elem()
	es := ft.w.sortOf(ft.d, elemT)
	less := args[1]
	if less.Fn == nil {
		return Val{}, unsupported("sort.Slice with a comparator that is not a function literal")
	}
	lname := calleeName(less.Fn)
	lcon := ft.w.contractFor(lname)
	if lcon == nil {
		return Val{}, unsupported("comparator " + lname + " needs a contract")
	}
	lcon.Used = true
	// the comparator's functional postcondition: result == E
	var lessE Expr
	for _, en := range lcon.Ensures {
		if be, ok := en.E.(*EBinary); ok && be.Op == "==" {
			if id, ok := be.X.(*EIdent); ok && id.Name == "result" {
				lessE = be.Y
			}
		}
	}
	if lessE == nil {
		return Val{}, unsupported("comparator contract needs a clause 'ensures result == <expr>'")
	}
	lms, err := ft.w.inferMods(ft.h, lname, less.Fn, map[string]bool{})
	if err != nil {
		return Val{}, err
	}
	for _, n := range lms.names() {
		if lms.arrs[n].whole {
			return Val{}, unsupported("comparator writes heap array " + n)
		}
	}
	n := SlcLen(s)
	callerEnv := func(state *State) *SpecEnv {
		e := ft.newEnv(state)
		e.pos = pos
		return e
	}
	relTerm := func(state *State, a, b *Term) *Term {
		e := callerEnv(state).bind(rel.a, SV{T: a, Ty: elemT}).bind(rel.b, SV{T: b, Ty: elemT})
		t, err2 := e.trBool(rel.body)
		if err2 != nil {
			panic(specErr{"sort.Slice relation: " + err2.Error()})
		}
		return t
	}
	// ---- effect on the heap: contents of the slice are permuted ----
	arrs := map[string]*Sort{}
	ft.h.arraysOfTypeMem(elemT, arrs)
	pre := st.clone()
	perm := ft.d.Fresh("sort_perm", SArray(SInt, SInt))
	inv := ft.d.Fresh("sort_inv", SArray(SInt, SInt))
	k := &Term{"sk", SInt}
	inR := func(t *Term) *Term { return And(Le(IntLit(0), t), Lt(t, n)) }
	ft.assume(at, Forall([]Bound{{"sk", SInt}}, Implies(inR(k), And(inR(Select(perm, k)), Eq(Select(inv, Select(perm, k)), k))), []*Term{Select(perm, k)}))
	ft.assume(at, Forall([]Bound{{"sk", SInt}}, Implies(inR(k), And(inR(Select(inv, k)), Eq(Select(perm, Select(inv, k)), k))), []*Term{Select(inv, k)}))
	for _, an := range sortedKeys(arrs) {
		srt := arrs[an]
		before := ft.h.arr(st, an, srt)
		after := ft.d.Fresh(an+"_sorted", srt)
		ft.onWriteElems(st, at, an, s, pos)
		am := &ArrMod{sort: srt, locs: []Loc{{LocElems, s}}}
		ft.assume(at, frameCond(am, before, after, ft.h.nextID(st)))
		ft.assume(at, Forall([]Bound{{"sk", SInt}}, Implies(inR(k), Eq(Select(after, SlcElemAddr(s, k)), Select(before, SlcElemAddr(s, Select(perm, k))))), []*Term{Select(after, SlcElemAddr(s, k))}))
		// the same fact through the inverse permutation (carries the trigger for the other direction)
		ft.assume(at, Forall([]Bound{{"sk", SInt}}, Implies(inR(k), Eq(Select(after, SlcElemAddr(s, Select(inv, k))), Select(before, SlcElemAddr(s, k)))), []*Term{Select(before, SlcElemAddr(s, k))}))
		if ef := ft.h.elemsFrame(before, after, SlcArr(s)); ef != nil {
			ft.assume(at, ef)
		}
		if elemsSupported(srt.V) {
			// derived: a permutation keeps the element set
			ft.assume(at, Eq(ft.h.elemsOf(after, s, srt.V), ft.h.elemsOf(before, s, srt.V)))
		}
		ft.h.setArr(st, an, after)
		ft.h.noteHavoc(after, ft.h.nextID(st))
	}
	// ---- obligation: the comparator computes the relation, whatever the current permutation ----
	{
		arb := pre.clone()
		for _, an := range sortedKeys(arrs) {
			srt := arrs[an]
			before := ft.h.arr(pre, an, srt)
			any := ft.d.Fresh(an+"_anyperm", srt)
			am := &ArrMod{sort: srt, locs: []Loc{{LocElems, s}}}
			ft.assume(at, frameCond(am, before, any, ft.h.nextID(pre)))
			arb.heap[an] = any
		}
		i := ft.d.Fresh("sort_i", SInt)
		j := ft.d.Fresh("sort_j", SInt)
		vars := map[string]SV{}
		sig := less.Fn.Signature
		vars[sig.Params().At(0).Name()] = SV{T: i, Ty: tInt}
		vars[sig.Params().At(1).Name()] = SV{T: j, Ty: tInt}
		for bi, fv := range less.Fn.FreeVars {
			vars[fv.Name()] = bindSV(less.Binds[bi], fv)
		}
		envL := &SpecEnv{h: ft.h, w: ft.w, pkg: ft.w.pkgOfFunc(less.Fn), vars: vars, st: arb, old: arb, qn: &ft.qn}
		if less.Fn.Parent() == ft.fn {
			// names the comparator does not capture denote this function's variables at the call
			envL.ft = ft
			envL.pos = pos
		}
		lv, err := envL.trBool(&EBinary{"==", &EBool{true}, lessE})
		if err != nil {
			return Val{}, fmt.Errorf("comparator contract: %v", err)
		}
		ei := ft.h.readAt(arb, SlcElemAddr(s, i), elemT)
		ej := ft.h.readAt(arb, SlcElemAddr(s, j), elemT)
		rv := relTerm(arb, ei, ej)
		// the comparator must agree with the relation on every pair the relation orders; on pairs the relation
		// leaves incomparable (neither before the other) its answer is irrelevant for the sorted result
		rvRev := relTerm(arb, ej, ei)
		ft.assert(at, Implies(And(inR(i), inR(j)), And(Implies(rv, lv), Implies(lv, Not(rvRev)))), "sort.less", "", "the comparator agrees with the relation "+rel.text+" on the elements at i and j", pos)
	}
	// ---- obligation: strict order ----
	{
		a := ft.d.Fresh("ord_a", es)
		b := ft.d.Fresh("ord_b", es)
		cc := ft.d.Fresh("ord_c", es)
		ft.assert(at, Not(relTerm(pre, a, a)), "sort.irreflexive", "", "relation is irreflexive", pos)
		ft.assert(at, Implies(And(relTerm(pre, a, b), relTerm(pre, b, cc)), relTerm(pre, a, cc)), "sort.transitive", "", "relation is transitive", pos)
	}
	// ---- assumed: sorted ----
	{
		a := &Term{"sa", SInt}
		b := &Term{"sb", SInt}
		ea := ft.h.readAt(st, SlcElemAddr(s, a), elemT)
		eb := ft.h.readAt(st, SlcElemAddr(s, b), elemT)
		ft.assume(at, Forall([]Bound{{"sa", SInt}, {"sb", SInt}}, Implies(And(Le(IntLit(0), a), Lt(a, b), Lt(b, n)), Not(relTerm(st, eb, ea)))))
	}
	ft.w.assume("sort.Slice: afterwards the slice is a permutation of its former contents and no element is before an earlier one in the relation, provided the comparator agrees with that strict weak order on all comparable pairs (assumed of the library; comparator obligations are proved at the call site)")
	return Val{}, nil
}

// onWriteElems: frame obligation for writing the elements of slice s
func (ft *FuncTr) onWriteElems(st *State, at *Term, name string, s *Term, pos token.Pos) {
	if ft.ownMod == nil {
		return
	}
	am := ft.ownMod.arrs[name]
	if am != nil && am.whole {
		return
	}
	allowed := []*Term{IsNil(SlcArr(s)), Le(ft.h.nextID(ft.init), PObjID(SlcArr(s)))}
	if am != nil {
		for _, l := range am.locs {
			if l.kind == LocElems {
				allowed = append(allowed, Eq(SlcArr(l.t), SlcArr(s)))
			}
		}
	}
	ft.assert(at, Or(allowed...), "frame", name+"/elems", "writing the elements of a slice must be covered by the modifies clause or target a fresh array", pos)
}

// sortStrings models sort.Strings(x): x becomes a permutation of its former contents in non-decreasing order.
func (ft *FuncTr) sortStrings(st *State, at *Term, in ssa.Instruction, c *ssa.CallCommon, args []Val) (Val, error) {
	pos := in.Pos()
	s := args[0].T
	n := SlcLen(s)
	es := SStr
	an := memArrName(es)
	srt := SArray(SPtr, es)
	perm := ft.d.Fresh("sort_perm", SArray(SInt, SInt))
	inv := ft.d.Fresh("sort_inv", SArray(SInt, SInt))
	k := &Term{"sk", SInt}
	inR := func(t *Term) *Term { return And(Le(IntLit(0), t), Lt(t, n)) }
	ft.assume(at, Forall([]Bound{{"sk", SInt}}, Implies(inR(k), And(inR(Select(perm, k)), Eq(Select(inv, Select(perm, k)), k))), []*Term{Select(perm, k)}))
	ft.assume(at, Forall([]Bound{{"sk", SInt}}, Implies(inR(k), And(inR(Select(inv, k)), Eq(Select(perm, Select(inv, k)), k))), []*Term{Select(inv, k)}))
	before := ft.h.arr(st, an, srt)
	after := ft.d.Fresh(an+"_sorted", srt)
	ft.onWriteElems(st, at, an, s, pos)
	am := &ArrMod{sort: srt, locs: []Loc{{LocElems, s}}}
	ft.assume(at, frameCond(am, before, after, ft.h.nextID(st)))
	ft.assume(at, Forall([]Bound{{"sk", SInt}}, Implies(inR(k), Eq(Select(after, SlcElemAddr(s, k)), Select(before, SlcElemAddr(s, Select(perm, k))))), []*Term{Select(after, SlcElemAddr(s, k))}))
	ft.assume(at, Forall([]Bound{{"sk", SInt}}, Implies(inR(k), Eq(Select(after, SlcElemAddr(s, Select(inv, k))), Select(before, SlcElemAddr(s, k)))), []*Term{Select(before, SlcElemAddr(s, k))}))
	if ef := ft.h.elemsFrame(before, after, SlcArr(s)); ef != nil {
		ft.assume(at, ef)
	}
	ft.assume(at, Eq(ft.h.elemsOf(after, s, es), ft.h.elemsOf(before, s, es)))
	ft.h.setArr(st, an, after)
	ft.h.noteHavoc(after, ft.h.nextID(st))
	a := &Term{"sa", SInt}
	b := &Term{"sb", SInt}
	ea := Select(after, SlcElemAddr(s, a))
	eb := Select(after, SlcElemAddr(s, b))
	ft.assume(at, Forall([]Bound{{"sa", SInt}, {"sb", SInt}}, Implies(And(Le(IntLit(0), a), Lt(a, b), Lt(b, n)), Not(mk(SBool, "str_lt", eb, ea))), []*Term{ea, eb}))
	ft.w.assume("sort.Strings: afterwards the slice is a permutation of its former contents in non-decreasing order (assumed of the library)")
	return Val{}, nil
}
