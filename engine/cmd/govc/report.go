package main

import (
	"context"
	"encoding/json"
	"fmt"
	"go/types"
	"os"
	"path/filepath"
	"sort"
	"strings"
	"time"
)

func ctxBackground() context.Context { return context.Background() }

func typesPointer(t types.Type) types.Type { return types.NewPointer(t) }

type lemmaJob struct {
	o    *Obligation
	file string
}

func lemmaJobs(w *World, pc *PropConfig, workDir string) ([]lemmaJob, []string) {
	var out []lemmaJob
	var errs []string
	var proved []*LemmaDef // lemmas checked earlier in this run (same package) serve as hypotheses for later ones
	for _, lm := range w.lemmas {
		match := false
		for _, pat := range pc.Lemmas {
			if lm.Name == pat || (strings.HasSuffix(pat, "*") && strings.HasPrefix(lm.Name, strings.TrimSuffix(pat, "*"))) {
				match = true
			}
		}
		if !match {
			continue
		}
		d := NewDecls()
		h := &HeapCtx{w: w, d: d, arrSorts: map[string]*Sort{}}
		st := newState()
		qn := 0
		var cons []string
		h.emit = func(t *Term) { cons = append(cons, t.S) }
		pkg := w.pkgs[lm.Pkg]
		for _, ax := range w.axioms {
			if strings.HasPrefix(ax.Pkg, "go.universe.tf/metallb") && ax.Pkg != lm.Pkg {
				continue
			}
			env := &SpecEnv{h: h, w: w, pkg: w.pkgs[ax.Pkg], vars: map[string]SV{}, st: st, old: st, qn: &qn}
			if env.pkg == nil {
				env.pkg = pkg
			}
			t, err := env.trBool(ax.E)
			if err != nil {
				errs = append(errs, fmt.Sprintf("axiom %s: %v", ax.Name, err))
				continue
			}
			cons = append(cons, t.S)
		}
		for _, pl := range proved {
			if pl.Pkg != lm.Pkg {
				continue
			}
			envp := &SpecEnv{h: h, w: w, pkg: pkg, vars: map[string]SV{}, st: st, old: st, qn: &qn}
			if pt, err := envp.trBool(pl.E); err == nil {
				cons = append(cons, pt.S)
			}
		}
		env := &SpecEnv{h: h, w: w, pkg: pkg, vars: map[string]SV{}, st: st, old: st, qn: &qn}
		t, err := env.trBool(lm.E)
		if err != nil {
			errs = append(errs, fmt.Sprintf("lemma %s (%s:%d): %v", lm.Name, lm.File, lm.Line, err))
			continue
		}
		proved = append(proved, lm)
		o := &Obligation{Name: "props." + pc.ID + "#lemma[" + lm.Name + "]", Func: "lemma " + lm.Name, Kind: "lemma", At: TTrue, Goal: t, Clause: lm.Text, Pos: fmt.Sprintf("%s:%d", lm.File, lm.Line)}
		file := filepath.Join(workDir, sanitize(o.Name)+".smt2")
		var b strings.Builder
		b.WriteString(d.Text())
		for _, c := range cons {
			fmt.Fprintf(&b, "(assert %s)\n", c)
		}
		fmt.Fprintf(&b, "; lemma %s\n(assert (not %s))\n(check-sat)\n(get-model)\n", lm.Name, t.S)
		writeFile(file, smtHeader(b.String())+b.String())
		out = append(out, lemmaJob{o, file})
	}
	return out, errs
}

type knownFinding struct {
	Prop, Obligation, What string
}

func loadKnownFindings() []knownFinding {
	b, err := os.ReadFile(filepath.Join(verifRoot, "known_findings.txt"))
	if err != nil {
		return nil
	}
	var out []knownFinding
	for _, l := range strings.Split(string(b), "\n") {
		l = strings.TrimSpace(l)
		if !strings.HasPrefix(l, "finding:") {
			continue
		}
		kf := knownFinding{}
		rest := strings.TrimSpace(l[len("finding:"):])
		for _, f := range strings.Fields(rest) {
			if strings.HasPrefix(f, "property=") {
				kf.Prop = f[len("property="):]
			}
			if strings.HasPrefix(f, "obligation=") {
				kf.Obligation = f[len("obligation="):]
			}
		}
		if i := strings.Index(rest, "what="); i >= 0 {
			kf.What = rest[i+5:]
		}
		out = append(out, kf)
	}
	return out
}

func loadExpected(id string) map[string]bool {
	b, err := os.ReadFile(filepath.Join(verifRoot, "props", id+".obligations"))
	if err != nil {
		return nil
	}
	m := map[string]bool{}
	for _, l := range strings.Split(string(b), "\n") {
		l = strings.TrimSpace(l)
		if l != "" && !strings.HasPrefix(l, "#") {
			m[l] = true
		}
	}
	return m
}

func report(w *World, pc *PropConfig, tier string, seed int, record, partial bool, results []*OblResult, translErrs []string, funcs []string, t0 time.Time, tLoad, tTrans float64) int {
	sort.SliceStable(results, func(i, j int) bool { return results[i].Name < results[j].Name })
	expected := loadExpected(pc.ID)
	known := loadKnownFindings()
	isKnown := func(name string) *knownFinding {
		for i := range known {
			if known[i].Prop == pc.ID && known[i].Obligation == name {
				return &known[i]
			}
		}
		return nil
	}
	var nObl, nDis, nCover, nCoverOK int
	var failed, undecided, vacuous, knownHit []*OblResult
	bySolver := map[string]int{}
	var solverSecs float64
	var slowest *OblResult
	for _, r := range results {
		solverSecs += r.Secs
		if r.Cover {
			nCover++
			switch r.Status {
			case "sat":
				nCoverOK++
			case "unsat":
				vacuous = append(vacuous, r)
			}
			continue
		}
		if slowest == nil || r.Secs > slowest.Secs {
			slowest = r
		}
		if r.Status == "unsat" {
			nObl++
			nDis++
			bySolver[r.Solver]++
			continue
		}
		if r.Status == "error" {
			// every back end rejected the query: an engine problem, not a verdict about the code
			translErrs = append(translErrs, fmt.Sprintf("solver error on %s: %s", r.Name, first(strings.Split(r.Output, "\n"), 1)))
			continue
		}
		if kf := isKnown(r.Name); kf != nil {
			knownHit = append(knownHit, r)
			continue
		}
		nObl++
		isNew := expected != nil && !expected[r.Name]
		// an obligation generated from a contract clause is a violation whenever it fails, even under a
		// new occurrence index; a brand-new generated safety obligation that is merely undecided is not
		clauseTied := !strings.HasPrefix(r.Kind, "safety.") // overflow obligations exist only where the contract says `check overflow`
		if r.Status == "sat" || !isNew || clauseTied {
			failed = append(failed, r)
		} else {
			undecided = append(undecided, r)
		}
	}
	var missing []string
	if expected != nil {
		have := map[string]bool{}
		for _, r := range results {
			have[r.Name] = true
		}
		for n := range expected {
			if !have[n] {
				missing = append(missing, n)
			}
		}
		sort.Strings(missing)
	}
	if record {
		var names []string
		for _, r := range results {
			names = append(names, r.Name)
		}
		sort.Strings(names)
		os.WriteFile(filepath.Join(verifRoot, "props", pc.ID+".obligations"), []byte(strings.Join(names, "\n")+"\n"), 0o644)
	}
	exit := 0
	replayDir := filepath.Join(verifRoot, "replays")
	if os.Getenv("VERIF_NOEVIDENCE") != "" {
		replayDir = filepath.Join(os.TempDir(), "govc-selftest-replays")
	}
	os.MkdirAll(replayDir, 0o755)
	for _, r := range knownHit {
		kf := isKnown(r.Name)
		fmt.Printf("KNOWN-FINDING: property=%s %s (obligation %s, %s)\n", pc.ID, kf.What, r.Name, r.Status)
	}
	for _, r := range failed {
		rp := filepath.Join(replayDir, pc.ID+"-"+sanitize(r.Name)+".json")
		smt, _ := os.ReadFile(r.File)
		replay := map[string]interface{}{
			"property": pc.ID, "obligation": r.Name, "function": r.Func, "kind": r.Kind, "clause": r.Clause, "position": r.Pos,
			"status": r.Status, "solver": r.Solver, "solver_output": r.Output, "smt2": string(smt),
			"replayed_on_real_code": false,
		}
		var allOut []map[string]interface{}
		for _, a := range r.All {
			allOut = append(allOut, map[string]interface{}{"solver": a.Solver, "status": a.Status, "secs": a.Secs, "output": a.Output})
		}
		replay["all_solvers"] = allOut
		suffix := " no-failing-input-found"
		confirmed := false
		if r.Status == "sat" {
			confirmed = tryReplay(w, pc, r, replay)
			if confirmed {
				suffix = ""
			}
		}
		jb, _ := json.MarshalIndent(replay, "", " ")
		os.WriteFile(rp, jb, 0o644)
		fmt.Printf("FAILED obligation %s [%s by %s] at %s: %s\n", r.Name, r.Status, r.Solver, r.Pos, r.Clause)
		fmt.Printf("VIOLATION property=%s replay=%s%s\n", pc.ID, rp, suffix)
		exit = 1
	}
	for _, r := range undecided {
		fmt.Printf("UNDECIDED new obligation %s [%s] at %s: %s\n", r.Name, r.Status, r.Pos, r.Clause)
		if exit == 0 {
			exit = 2
		}
	}
	for _, r := range vacuous {
		fmt.Printf("VACUOUS: cover probe %s is unsat (contradictory precondition or invariant)\n", r.Name)
		if exit == 0 {
			exit = 2
		}
	}
	for _, e := range translErrs {
		fmt.Printf("UNDECIDED: %s\n", e)
		if exit == 0 {
			exit = 2
		}
	}
	if nObl == 0 && exit == 0 {
		fmt.Println("UNDECIDED: no obligations generated")
		exit = 2
	}
	if len(missing) > 0 {
		fmt.Printf("note: %d recorded obligations were not generated on this tree (code changed?): %s\n", len(missing), strings.Join(first(missing, 5), ", "))
	}
	wall := time.Since(t0).Seconds()
	fmt.Printf("%s %s: %d obligations, %d discharged, %d failed, %d undecided-new, %d known findings, %d/%d cover probes ok, %d functions, load %.1fs translate %.1fs wall %.1fs\n",
		pc.ID, tier, nObl, nDis, len(failed), len(undecided), len(knownHit), nCoverOK, nCover, len(funcs), tLoad, tTrans, wall)
	if partial || os.Getenv("VERIF_NOEVIDENCE") != "" {
		return exit
	}
	// evidence
	var samples []map[string]interface{}
	step := 1
	if len(results) > 12 {
		step = len(results) / 12
	}
	for i := 0; i < len(results); i += step {
		r := results[i]
		samples = append(samples, map[string]interface{}{"obligation": r.Name, "kind": r.Kind, "clause": r.Clause, "status": r.Status, "solver": r.Solver, "secs": round3(r.Secs)})
	}
	var assum []string
	for a := range w.assumptions {
		assum = append(assum, a)
	}
	assum = append(assum, pc.Assumptions...)
	var trusted []string
	var trustedNames []string
	for n, c := range w.contracts {
		if c.Trusted && c.Used {
			trustedNames = append(trustedNames, n)
		}
	}
	for _, c := range w.wild {
		if c.Used {
			trustedNames = append(trustedNames, c.FuncName)
		}
	}
	// contracts of functions of this module that are used here but whose bodies this property's check does not verify:
	// say which property's check does, or that none does
	{
		mine := map[string]bool{}
		for _, f := range pc.Functions {
			mine[expandFuncName(f)] = true
		}
		others := map[string][]string{}
		if ents, err := os.ReadDir(filepath.Join(verifRoot, "props")); err == nil {
			for _, e := range ents {
				if !strings.HasSuffix(e.Name(), ".json") || strings.HasPrefix(e.Name(), "T") {
					continue
				}
				if opc, err := loadProp(strings.TrimSuffix(e.Name(), ".json")); err == nil && opc.ID != pc.ID {
					for _, f := range opc.Functions {
						others[expandFuncName(f)] = append(others[expandFuncName(f)], opc.ID)
					}
				}
			}
		}
		idx := w.funcIndex()
		for n, c := range w.contracts {
			if c.Trusted || !c.Used || mine[n] {
				continue
			}
			if f := idx[n]; f == nil || len(f.Blocks) == 0 {
				continue
			}
			if ids := others[n]; len(ids) > 0 {
				sort.Strings(ids)
				assum = append(assum, "contract of "+strings.ReplaceAll(n, "go.universe.tf/metallb/", "")+" is used here and proved by the check of "+strings.Join(ids, ", "))
			} else {
				assum = append(assum, "UNVERIFIED: contract of "+strings.ReplaceAll(n, "go.universe.tf/metallb/", "")+" is used here but no property check proves it")
			}
		}
	}
	for n, c := range w.contracts {
		if c.Trusted || !c.Used {
			continue
		}
		for _, en := range c.Ensures {
			if en.Assumed {
				assum = append(assum, "assumed postcondition of "+n+" (not proved of its body): "+en.Text)
			}
		}
	}
	sort.Strings(trustedNames)
	for _, n := range trustedNames {
		assum = append(assum, "assumed (trusted) contract: "+n)
	}
	for _, ax := range w.axioms {
		assum = append(assum, fmt.Sprintf("axiom %s: %s", ax.Name, ax.Text))
	}
	sort.Strings(assum)
	trusted = []string{
		"go/packages + go/types + go/ssa (x/tools v0.29.0) building SSA from /repo's current working tree",
		"govc SSA->VC translation (this engine), SMT encoding (mathematical integers with range constraints, Burstall-Bornat heap)",
		"SMT solvers z3 5.1.0 (z3-new), z3 4.8.12, cvc5 1.0",
		"assumed contracts for dependencies (stubs/*.spec), listed under assumptions",
	}
	var slow map[string]interface{}
	if slowest != nil {
		slow = map[string]interface{}{"obligation": slowest.Name, "secs": round3(slowest.Secs), "solver": slowest.Solver}
	}
	var knownOut []string
	for _, r := range knownHit {
		knownOut = append(knownOut, r.Name)
	}
	sort.Strings(funcs)
	ev := map[string]interface{}{
		"property_id": pc.ID, "tier": tier, "seed": seed, "level": "proof",
		"coverage": map[string]interface{}{
			"obligations": nObl, "discharged": nDis,
			"checker_cmd": fmt.Sprintf("./check %s %s", pc.ID, tier),
			"trusted_base": trusted,
			"samples": samples,
			"functions_under_contract": funcs,
			"discharged_by_backend": bySolver,
			"solver_seconds_total": round3(solverSecs),
			"slowest_obligation": slow,
			"cover_probes": nCover, "cover_probes_sat": nCoverOK,
			"bounded": pc.Bounded,
			"uncovered_clauses": pc.Uncovered,
			"known_findings": knownOut,
			"undecided_new_obligations": len(undecided),
			"recorded_obligations_not_generated": len(missing),
			"extraction_drops": []string{"DebugRef instructions and non-//@ comments", "bodies of callees (replaced by contracts)", "termination", "scheduler (go statements)", "memory exhaustion", "fields of struct types never read by a function under contract or a spec (relevance pruning)"},
			"load_s": round3(tLoad), "translate_s": round3(tTrans),
			"nondeterminism_sources_audit": auditInfo,
		},
		"assumptions": assum,
		"wall_s":      round3(wall),
		"violations":  len(failed),
	}
	os.MkdirAll(filepath.Join(verifRoot, "evidence"), 0o755)
	jb, _ := json.MarshalIndent(ev, "", " ")
	os.WriteFile(filepath.Join(verifRoot, "evidence", pc.ID+".json"), jb, 0o644)
	return exit
}

func first(s []string, n int) []string {
	if len(s) > n {
		return s[:n]
	}
	return s
}

func round3(f float64) float64 { return float64(int(f*1000+0.5)) / 1000 }

// tryReplay: materialise the model and run the real code. Implemented in replay.go.
func tryReplay(w *World, pc *PropConfig, r *OblResult, replay map[string]interface{}) bool {
	return replayOnRealCode(w, pc, r, replay)
}
