package main

// Modifies sets at array and location granularity; frame conditions; loop write sets.

import (
	"os"
	"fmt"
	"go/token"
	"go/types"
	"strings"

	"golang.org/x/tools/go/packages"
	"golang.org/x/tools/go/ssa"
)

type LocKind int

const (
	LocExact LocKind = iota // the cell with address t
	LocElems                // any element cell of the array object underlying slice t
)

type Loc struct {
	kind LocKind
	t    *Term
}

type ArrMod struct {
	sort  *Sort
	whole bool
	locs  []Loc
}

// ModSet: what a call / loop may write. Writes to objects allocated during the call are always
// allowed for arrays present in the set.
type ModSet struct {
	arrs  map[string]*ArrMod
	ghost map[string]*Sort
}

func newModSet() *ModSet { return &ModSet{arrs: map[string]*ArrMod{}, ghost: map[string]*Sort{}} }

func (m *ModSet) get(name string, s *Sort) *ArrMod {
	a := m.arrs[name]
	if a == nil {
		a = &ArrMod{sort: s}
		m.arrs[name] = a
	}
	return a
}

func (m *ModSet) addWhole(arrs map[string]*Sort) {
	for n, s := range arrs {
		m.get(n, s).whole = true
	}
}

func (m *ModSet) addFresh(arrs map[string]*Sort) {
	for n, s := range arrs {
		m.get(n, s)
	}
}

func (m *ModSet) addLoc(arrs map[string]*Sort, l Loc) {
	for n, s := range arrs {
		a := m.get(n, s)
		a.locs = append(a.locs, l)
	}
}

func (m *ModSet) names() []string {
	mm := map[string]*Sort{}
	for n, a := range m.arrs {
		mm[n] = a.sort
	}
	return sortedKeys(mm)
}

// notIn: address p is outside location l
func notIn(p *Term, l Loc) *Term {
	switch l.kind {
	case LocExact:
		return Not(Eq(p, l.t))
	default:
		c, _ := isElemOfX(p, SlcArr(l.t), true)
		return Not(c)
	}
}

func inLoc(p *Term, l Loc) *Term { return Not(notIn(p, l)) }

// frameCond: cells allocated before oldNext and outside the locations keep their value.
func frameCond(am *ArrMod, before, after, oldNext *Term) *Term {
	p := &Term{"fp", SPtr}
	conds := []*Term{Or(IsNil(p), Lt(PObjID(p), oldNext))}
	for _, l := range am.locs {
		conds = append(conds, notIn(p, l))
	}
	return Forall([]Bound{{"fp", SPtr}}, Implies(And(conds...), Eq(Select(after, p), Select(before, p))), []*Term{Select(after, p)})
}

// arraysAt: heap arrays and index addresses holding a value of type ty stored at address addr.
// For nested structs the index differs per array, so the result maps array -> address.
func (h *HeapCtx) arraysAt(addr *Term, ty types.Type, out map[string]*Term, sorts map[string]*Sort) {
	if isStructT(ty) {
		si := h.w.structInfo(ty)
		for _, i := range si.Fields {
			fty := si.T.Field(i).Type()
			if isStructT(fty) || isArrayT(fty) {
				h.arraysAt(PFld(addr, i), fty, out, sorts)
			} else {
				n := h.w.fieldArrName(ty, i)
				out[n] = addr
				sorts[n] = SArray(SPtr, h.w.sortOf(h.d, fty))
			}
		}
		return
	}
	if at, ok := ty.Underlying().(*types.Array); ok {
		// element-wise; treat as Elems-like: approximate by the first element's arrays at each index
		for i := int64(0); i < at.Len() && i < 64; i++ {
			h.arraysAt(PElem(addr, IntLit(i)), at.Elem(), out, sorts)
		}
		return
	}
	srt := h.w.sortOf(h.d, ty)
	n := memArrName(srt)
	out[n] = addr
	sorts[n] = SArray(SPtr, srt)
}

// resolveMods turns the textual modifies items of a contract into a ModSet, evaluating
// location expressions in env (callee parameters bound to the arguments, pre-state).
func (h *HeapCtx) resolveMods(env *SpecEnv, pkg *packages.Package, items []string) (*ModSet, error) {
	ms := newModSet()
	for _, it0 := range items {
		it := strings.TrimSpace(it0)
		fresh := false
		if strings.HasPrefix(it, "fresh ") {
			fresh = true
			it = strings.TrimSpace(it[6:])
		}
		if strings.HasPrefix(it, "$") {
			ms.ghost[it] = ghostSort(it)
			continue
		}
		if strings.HasPrefix(it, "gint(\"") && strings.HasSuffix(it, "\")") {
			ms.get("G_"+sanitize(it[6:len(it)-2]), SArray(SPtr, SInt)).whole = true
			continue
		}
		one := map[string]*Sort{}
		typeLevel := false
		if ty, e := h.w.evalType(pkg, it); e == nil {
			switch t := ty.Underlying().(type) {
			case *types.Map:
				h.arraysOfMap(t, one)
				typeLevel = true
			case *types.Slice:
				h.arraysOfTypeMem(t.Elem(), one)
				typeLevel = true
			case *types.Pointer:
				h.arraysOfTypeMem(t.Elem(), one)
				typeLevel = true
			}
		}
		if !typeLevel {
			if i := strings.LastIndex(it, "."); i > 0 && !strings.ContainsAny(it, "()[]*") {
				if ty, e2 := h.w.evalType(pkg, it[:i]); e2 == nil {
					ty = derefType(ty)
					if st, ok := ty.Underlying().(*types.Struct); ok {
						for k := 0; k < st.NumFields(); k++ {
							if st.Field(k).Name() == it[i+1:] {
								h.arraysOfField(ty, k, one)
								typeLevel = true
							}
						}
						if !typeLevel {
							return nil, fmt.Errorf("modifies %q: no such field", it)
						}
					}
				}
			}
		}
		if typeLevel {
			if fresh {
				ms.addFresh(one)
			} else {
				ms.addWhole(one)
			}
			continue
		}
		// expression-level location
		if fresh {
			return nil, fmt.Errorf("modifies %q: 'fresh' applies to type-level items only", it0)
		}
		if env == nil {
			return nil, fmt.Errorf("modifies %q: location items need an environment", it0)
		}
		if err := h.resolveLocItem(env, it, ms); err != nil {
			return nil, fmt.Errorf("modifies %q: %v", it0, err)
		}
	}
	return ms, nil
}

func (h *HeapCtx) resolveLocItem(env *SpecEnv, it string, ms *ModSet) (err error) {
	defer func() {
		if r := recover(); r != nil {
			switch v := r.(type) {
			case specErr:
				err = v
			case unsupportedErr:
				err = v
			default:
				panic(r)
			}
		}
	}()
	e, perr := ParseExpr(it)
	if perr != nil {
		return perr
	}
	switch x := e.(type) {
	case *ECall:
		if id, ok := x.Fun.(*EIdent); ok && len(x.Args) == 1 {
			switch id.Name {
			case "map":
				v := env.tr(x.Args[0])
				mt, ok := v.Ty.Underlying().(*types.Map)
				if !ok {
					return fmt.Errorf("map(e): e is not a map")
				}
				one := map[string]*Sort{}
				h.arraysOfMap(mt, one)
				ms.addLoc(one, Loc{LocExact, env.val(v)})
				return nil
			case "elems":
				v := env.tr(x.Args[0])
				stt, ok := v.Ty.Underlying().(*types.Slice)
				if !ok {
					return fmt.Errorf("elems(e): e is not a slice")
				}
				one := map[string]*Sort{}
				h.arraysOfTypeMem(stt.Elem(), one)
				ms.addLoc(one, Loc{LocElems, env.val(v)})
				return nil
			}
		}
	case *EUnary:
		if x.Op == "*" {
			v := env.tr(x.X)
			pt, ok := v.Ty.Underlying().(*types.Pointer)
			if !ok {
				return fmt.Errorf("*e: e is not a pointer")
			}
			addrs := map[string]*Term{}
			sorts := map[string]*Sort{}
			h.arraysAt(env.val(v), pt.Elem(), addrs, sorts)
			for n, a := range addrs {
				am := ms.get(n, sorts[n])
				am.locs = append(am.locs, Loc{LocExact, a})
			}
			return nil
		}
	case *ESel:
		base := env.tr(x.X)
		bty := base.Ty
		var addr *Term
		if pt, ok := bty.Underlying().(*types.Pointer); ok {
			addr = env.val(base)
			bty = pt.Elem()
		} else if base.Addr != nil {
			addr = base.Addr
		} else {
			return fmt.Errorf("e.f: e is not addressable")
		}
		obj, path := lookupFieldAnyPkg(bty, x.Name)
		if obj == nil {
			return fmt.Errorf("no field %s", x.Name)
		}
		cur := bty
		for _, idx := range path[:len(path)-1] {
			addr = PFld(addr, idx)
			cur = cur.Underlying().(*types.Struct).Field(idx).Type()
		}
		last := path[len(path)-1]
		fty := cur.Underlying().(*types.Struct).Field(last).Type()
		if isStructT(fty) || isArrayT(fty) {
			addrs := map[string]*Term{}
			sorts := map[string]*Sort{}
			h.arraysAt(PFld(addr, last), fty, addrs, sorts)
			for n, a := range addrs {
				am := ms.get(n, sorts[n])
				am.locs = append(am.locs, Loc{LocExact, a})
			}
			return nil
		}
		n := h.w.fieldArrName(cur, last)
		am := ms.get(n, SArray(SPtr, h.w.sortOf(h.d, fty)))
		am.locs = append(am.locs, Loc{LocExact, addr})
		return nil
	}
	// any addressable expression: its own cell(s)
	if v := env.tr(e); v.Addr != nil {
		addrs := map[string]*Term{}
		sorts := map[string]*Sort{}
		h.arraysAt(v.Addr, v.Ty, addrs, sorts)
		for n, a := range addrs {
			am := ms.get(n, sorts[n])
			am.locs = append(am.locs, Loc{LocExact, a})
		}
		return nil
	}
	return fmt.Errorf("unsupported location item (use map(e), elems(e), *e, e.f, an addressable variable or a type-level item)")
}

// ---------- callee modifies ----------

// modsOfCall: the ModSet of a call. Declared (evaluated in env) or inferred from the body (array level).
func (w *World) modsOfCall(h *HeapCtx, env *SpecEnv, name string, con *Contract, fn *ssa.Function, visiting map[string]bool) (*ModSet, error) {
	if con.ModDeclared || con.Trusted || fn == nil || len(fn.Blocks) == 0 {
		pkg := w.pkgs[con.Pkg]
		if pkg == nil && fn != nil {
			pkg = w.pkgOfFunc(fn)
		}
		ms, err := h.resolveMods(env, pkg, con.Modifies)
		if err != nil {
			return nil, fmt.Errorf("%s: %v", name, err)
		}
		if len(ms.arrs) > 0 || con.Allocates {
			ms.ghost["$next"] = SInt
		}
		return ms, nil
	}
	return w.inferMods(h, name, fn, visiting)
}

// inferMods: syntactic over-approximation of the arrays a function body may write (array level,
// with 'fresh only' recognised for writes rooted at allocations of the same function).
func (w *World) inferMods(h *HeapCtx, name string, fn *ssa.Function, visiting map[string]bool) (*ModSet, error) {
	if visiting[name] {
		return newModSet(), nil
	}
	visiting[name] = true
	defer delete(visiting, name)
	ms := newModSet()
	for _, b := range fn.Blocks {
		for _, in := range b.Instrs {
			sites, err := w.writeSites(h, in, visiting)
			if err != nil {
				return nil, fmt.Errorf("inferring modifies of %s: %v", name, err)
			}
			for _, s := range sites {
				if s.ghost != "" {
					ms.ghost[s.ghost] = ghostSort(s.ghost)
					continue
				}
				if s.local != nil {
					continue
				}
				am := ms.get(s.arr, s.sort)
				if !s.fresh {
					am.whole = true
				}
			}
		}
	}
	return ms, nil
}

// WriteSite: one potential write of an instruction.
type WriteSite struct {
	arr   string
	sort  *Sort
	fresh bool      // target object allocated by the same function / loop body
	whole bool      // unknown target
	local *ssa.Alloc
	ghost string
	// location description (when !fresh && !whole): root value and kind
	root    ssa.Value // pointer / map / slice value whose object is written
	kind    LocKind
	fieldOf bool // root is the base pointer of a struct whose leaf field array is arr
	appendTo *ssa.Alloc // append(s,...) where s is a load of this local
}

func (w *World) writeSites(h *HeapCtx, in ssa.Instruction, visiting map[string]bool) (sites []WriteSite, err error) {
	defer func() {
		if r := recover(); r != nil {
			if u, ok := r.(unsupportedErr); ok {
				err = u
				return
			}
			panic(r)
		}
	}()
	add := func(arrs map[string]*Sort, s WriteSite) {
		for _, n := range sortedKeys(arrs) {
			t := s
			t.arr = n
			t.sort = arrs[n]
			sites = append(sites, t)
		}
	}
	switch x := in.(type) {
	case *ssa.Alloc:
		if x.Heap {
			m := map[string]*Sort{}
			h.arraysOfTypeMem(x.Type().(*types.Pointer).Elem(), m)
			add(m, WriteSite{fresh: true})
			sites = append(sites, WriteSite{ghost: "$next"})
		} else {
			sites = append(sites, WriteSite{local: x})
		}
	case *ssa.Store:
		root := addrRoot(x.Addr)
		if al, ok := root.(*ssa.Alloc); ok && !al.Heap {
			sites = append(sites, WriteSite{local: al})
			return
		}
		fresh := false
		if al, ok := root.(*ssa.Alloc); ok && al.Heap {
			fresh = true
		}
		m := map[string]*Sort{}
		switch a := x.Addr.(type) {
		case *ssa.FieldAddr:
			h.arraysOfField(derefType(a.X.Type()), a.Field, m)
			fty := derefType(a.X.Type()).Underlying().(*types.Struct).Field(a.Field).Type()
			if isStructT(fty) || isArrayT(fty) {
				add(m, WriteSite{fresh: fresh, whole: !fresh})
			} else {
				add(m, WriteSite{fresh: fresh, root: a.X, kind: LocExact, fieldOf: true})
			}
		case *ssa.IndexAddr:
			h.arraysOfTypeMem(x.Addr.Type().Underlying().(*types.Pointer).Elem(), m)
			if _, isSl := a.X.Type().Underlying().(*types.Slice); isSl {
				_, fr := a.X.(*ssa.MakeSlice)
				add(m, WriteSite{fresh: fr, root: a.X, kind: LocElems})
			} else {
				add(m, WriteSite{fresh: fresh, whole: !fresh})
			}
		default:
			ety := x.Addr.Type().Underlying().(*types.Pointer).Elem()
			h.arraysOfTypeMem(ety, m)
			if isStructT(ety) || isArrayT(ety) {
				add(m, WriteSite{fresh: fresh, whole: !fresh})
			} else {
				add(m, WriteSite{fresh: fresh, root: x.Addr, kind: LocExact})
			}
		}
	case *ssa.MapUpdate:
		m := map[string]*Sort{}
		h.arraysOfMap(x.Map.Type().Underlying().(*types.Map), m)
		_, fresh := x.Map.(*ssa.MakeMap)
		add(m, WriteSite{fresh: fresh, root: x.Map, kind: LocExact})
	case *ssa.MakeMap:
		m := map[string]*Sort{}
		h.arraysOfMap(x.Type().Underlying().(*types.Map), m)
		add(m, WriteSite{fresh: true})
		sites = append(sites, WriteSite{ghost: "$next"})
	case *ssa.MakeSlice:
		m := map[string]*Sort{}
		h.arraysOfTypeMem(x.Type().Underlying().(*types.Slice).Elem(), m)
		add(m, WriteSite{fresh: true})
		sites = append(sites, WriteSite{ghost: "$next"})
	case *ssa.Next:
	case ssa.CallInstruction:
		if _, isGo := in.(*ssa.Go); isGo {
			return
		}
		c := x.Common()
		if b, ok := c.Value.(*ssa.Builtin); ok {
			switch b.Name() {
			case "append":
				m := map[string]*Sort{}
				h.arraysOfTypeMem(c.Args[0].Type().Underlying().(*types.Slice).Elem(), m)
				ws := WriteSite{root: c.Args[0], kind: LocElems}
				if ld, ok := c.Args[0].(*ssa.UnOp); ok && ld.Op == token.MUL {
					if al, ok := ld.X.(*ssa.Alloc); ok && !al.Heap {
						ws.appendTo = al
					}
				}
				add(m, ws)
				sites = append(sites, WriteSite{ghost: "$next"})
			case "copy":
				if st, ok := c.Args[0].Type().Underlying().(*types.Slice); ok {
					m := map[string]*Sort{}
					h.arraysOfTypeMem(st.Elem(), m)
					_, fr := c.Args[0].(*ssa.MakeSlice)
					add(m, WriteSite{fresh: fr, root: c.Args[0], kind: LocElems})
				}
			case "delete":
				m := map[string]*Sort{}
				h.arraysOfMap(c.Args[0].Type().Underlying().(*types.Map), m)
				add(m, WriteSite{root: c.Args[0], kind: LocExact})
			case "clear":
				panic(unsupported("clear builtin"))
			}
			return
		}
		if sc := c.StaticCallee(); sc != nil && calleeName(sc) == "maps.Keys" {
			return
		}
		if sc := c.StaticCallee(); sc != nil && calleeName(sc) == "sort.Strings" {
			m := map[string]*Sort{}
			h.arraysOfTypeMem(types.Typ[types.String], m)
			add(m, WriteSite{root: c.Args[0], kind: LocElems})
			return
		}
		if sc := c.StaticCallee(); sc != nil && calleeName(sc) == "sort.Slice" {
			if mi, ok := c.Args[0].(*ssa.MakeInterface); ok {
				if st, ok := mi.X.Type().Underlying().(*types.Slice); ok {
					m := map[string]*Sort{}
					h.arraysOfTypeMem(st.Elem(), m)
					add(m, WriteSite{root: mi.X, kind: LocElems})
					return
				}
			}
			return nil, unsupported("sort.Slice on a non-literal slice")
		}
		name, con, fn := w.resolveCallee(c)
		if con == nil {
			if name == "" {
				if isIterSeq(c.Value.Type()) && len(c.Args) == 1 {
					// range-over-func: the write set is the yield closure's
					if mc, ok := c.Args[0].(*ssa.MakeClosure); ok {
						yfn := mc.Fn.(*ssa.Function)
						ycon := w.contractFor(calleeName(yfn))
						if ycon == nil {
							return nil, unsupported("range-over-func body " + calleeName(yfn) + " needs a contract")
						}
						var cm *ModSet
						if ycon.ModDeclared {
							cm, err = h.resolveModsArrayLevel(w, ycon, yfn)
						} else {
							cm, err = w.inferMods(h, calleeName(yfn), yfn, visiting)
						}
						if err != nil {
							return nil, err
						}
						for _, n := range cm.names() {
							am := cm.arrs[n]
							sites = append(sites, WriteSite{arr: n, sort: am.sort, fresh: !am.whole && len(am.locs) == 0, whole: am.whole || len(am.locs) > 0})
						}
						sites = append(sites, WriteSite{ghost: "$next"})
					}
				}
				return // dynamic call: decided at translation time
			}
			return nil, unsupported("callee " + name + " needs a contract")
		}
		var cm *ModSet
		if con.ModDeclared || con.Trusted || fn == nil || len(fn.Blocks) == 0 {
			// declared: locations cannot be evaluated here; treat located arrays as whole
			cm, err = h.resolveModsArrayLevel(w, con, fn)
			if err != nil {
				return nil, err
			}
			if len(cm.arrs) > 0 || con.Allocates {
				cm.ghost["$next"] = SInt
			}
		} else {
			cm, err = w.inferMods(h, name, fn, visiting)
			if err != nil {
				return nil, err
			}
		}
		for _, n := range cm.names() {
			am := cm.arrs[n]
			sites = append(sites, WriteSite{arr: n, sort: am.sort, fresh: !am.whole && len(am.locs) == 0, whole: am.whole || len(am.locs) > 0})
		}
		for g := range cm.ghost {
			sites = append(sites, WriteSite{ghost: g})
		}
	}
	return
}

// resolveModsArrayLevel: declared modifies with every location item widened to its whole array.
func (h *HeapCtx) resolveModsArrayLevel(w *World, con *Contract, fn *ssa.Function) (*ModSet, error) {
	pkg := w.pkgs[con.Pkg]
	if pkg == nil && fn != nil {
		pkg = w.pkgOfFunc(fn)
	}
	ms := newModSet()
	var typeItems []string
	for _, it := range con.Modifies {
		one, err := h.resolveMods(nil, pkg, []string{it})
		if err == nil {
			for n, a := range one.arrs {
				am := ms.get(n, a.sort)
				am.whole = am.whole || a.whole
			}
			for g, s := range one.ghost {
				ms.ghost[g] = s
			}
			typeItems = append(typeItems, it)
			continue
		}
		// location item: find arrays by static typing of the expression is not possible without env;
		// use a dummy environment binding parameters to fresh constants
		env := h.dummyEnv(w, con, fn)
		if env == nil {
			return nil, fmt.Errorf("%s: cannot widen modifies item %q", con.FuncName, it)
		}
		loc, err2 := h.resolveMods(env, pkg, []string{it})
		if err2 != nil {
			return nil, fmt.Errorf("%s: %v", con.FuncName, err2)
		}
		for n, a := range loc.arrs {
			ms.get(n, a.sort).whole = true
		}
	}
	return ms, nil
}

// dummyEnv binds the callee's parameters to fresh constants (only used to learn which arrays a
// location item touches).
func (h *HeapCtx) dummyEnv(w *World, con *Contract, fn *ssa.Function) *SpecEnv {
	if fn == nil {
		return nil
	}
	names, tys := sigNames(fn.Signature, false)
	vars := map[string]SV{}
	for i, n := range names {
		if tys[i] == nil {
			continue
		}
		vars[n] = SV{T: h.d.Fresh("dummy_"+n, w.sortOf(h.d, tys[i])), Ty: tys[i]}
	}
	for _, fv := range fn.FreeVars {
		vars[fv.Name()] = SV{Addr: h.d.Fresh("dummy_"+fv.Name(), SPtr), Ty: fv.Type().(*types.Pointer).Elem()}
	}
	qn := 0
	st := newState()
	pkg := w.pkgs[con.Pkg]
	if pkg == nil {
		pkg = w.pkgOfFunc(fn)
	}
	return &SpecEnv{h: h, w: w, pkg: pkg, vars: vars, st: st, old: st, qn: &qn}
}

// ---------- frame obligations of the function's own declared modifies ----------

// onWrite: a direct heap write of array 'name' at address addr.
func (ft *FuncTr) onWrite(st *State, at *Term, name string, addr *Term, pos token.Pos) {
	if ft.ownMod == nil {
		return
	}
	fresh := And(Not(IsNil(addr)), Le(ft.h.nextID(ft.init), PObjID(addr)))
	am := ft.ownMod.arrs[name]
	if am != nil && am.whole {
		return
	}
	allowed := []*Term{fresh}
	if am != nil {
		for _, l := range am.locs {
			allowed = append(allowed, inLoc(addr, l))
		}
	}
	ft.assert(at, Or(allowed...), "frame", name, "write to "+name+" must be covered by the modifies clause or target a fresh object", pos)
}

// noteCalleeWrites: the callee's write set must be covered by this function's modifies clause.
func (ft *FuncTr) noteCalleeWrites(st *State, at *Term, ms *ModSet, callee string, pos token.Pos) {
	if ft.ownMod == nil {
		return
	}
	for _, n := range ms.names() {
		cm := ms.arrs[n]
		own := ft.ownMod.arrs[n]
		if own != nil && own.whole {
			continue
		}
		if cm.whole {
			ft.assert(at, TFalse, "frame", n+"/"+callee, "callee may write all of "+n+", which this function's modifies clause does not allow", pos)
			continue
		}
		for _, l := range cm.locs {
			var root *Term
			if l.kind == LocExact {
				root = l.t
			} else {
				root = SlcArr(l.t)
			}
			allowed := []*Term{IsNil(root), Le(ft.h.nextID(ft.init), PObjID(root))}
			if own != nil {
				for _, ol := range own.locs {
					if ol.kind == l.kind {
						if l.kind == LocExact {
							allowed = append(allowed, Eq(l.t, ol.t))
						} else {
							allowed = append(allowed, Eq(SlcArr(l.t), SlcArr(ol.t)))
						}
					} else if ol.kind == LocElems && l.kind == LocExact {
						allowed = append(allowed, inLoc(l.t, ol))
					}
				}
			}
			ft.assert(at, Or(allowed...), "frame", n+"/"+callee, "location written by callee must be covered by this function's modifies clause", pos)
		}
	}
}

// ---------- loops ----------

type loopArr struct {
	sort  *Sort
	whole bool
	locFn []func(pre *State) (Loc, bool)
}

// invariantTerm: the term of value v at the head of loop l if v cannot change inside the loop.
func (ft *FuncTr) invariantTerm(v ssa.Value, l *LoopInfo, pre *State) (*Term, bool) {
	switch x := v.(type) {
	case *ssa.Parameter, *ssa.Const, *ssa.Global, *ssa.FreeVar:
		val := ft.val(v)
		return val.T, val.T != nil
	case *ssa.UnOp:
		if x.Op == token.MUL {
			if al, ok := x.X.(*ssa.Alloc); ok {
				if _, isLocal := ft.vals[al]; isLocal || true {
					if (!al.Heap || ft.snapshotCell(al)) && !l.modLocals[al] {
						return ft.localGet(pre, al), true
					}
				}
			}
		}
	}
	if in, ok := v.(ssa.Instruction); ok {
		if !l.Blocks[in.Block()] {
			val, have := ft.vals[v]
			if have && val.T != nil {
				return val.T, true
			}
		}
	}
	return nil, false
}

func (ft *FuncTr) computeLoopMods(l *LoopInfo) error {
	l.modLocals = map[*ssa.Alloc]bool{}
	l.modArrs = map[string]*loopArr{}
	l.modIters = map[*ssa.Range]bool{}
	l.modGhost = map[string]*Sort{}
	var all []WriteSite
	for _, b := range ft.fn.Blocks {
		if !l.Blocks[b] {
			continue
		}
		for _, in := range b.Instrs {
			sites, err := ft.w.writeSites(ft.h, in, map[string]bool{})
			if err != nil {
				return err
			}
			all = append(all, sites...)
			if nx, ok := in.(*ssa.Next); ok {
				if r, ok := nx.Iter.(*ssa.Range); ok {
					l.modIters[r] = true
					l.modGhost[iterKeyName(r)] = ft.w.sortOf(ft.d, r.X.Type().Underlying().(*types.Map).Key())
				}
			}
			if call, ok := in.(*ssa.Call); ok {
				if ft.isRangeFuncCall(call.Common()) {
					return unsupported("range-over-func inside a loop")
				}
			}
		}
	}
	for _, s := range all {
		if s.local != nil {
			l.modLocals[s.local] = true
		}
		if s.ghost != "" {
			l.modGhost[s.ghost] = ghostSort(s.ghost)
		}
	}
	// which locals are only ever assigned append(results of themselves)?
	appendOnly := map[*ssa.Alloc]bool{}
	for al := range l.modLocals {
		ok := true
		n := 0
		for _, b := range ft.fn.Blocks {
			if !l.Blocks[b] {
				continue
			}
			for _, in := range b.Instrs {
				st, isSt := in.(*ssa.Store)
				if !isSt || st.Addr != ssa.Value(al) {
					if a2, isAl := in.(*ssa.Alloc); isAl && a2 == al {
						ok = false
					}
					continue
				}
				n++
				call, isCall := st.Val.(*ssa.Call)
				if !isCall {
					ok = false
					continue
				}
				b2, isB := call.Call.Value.(*ssa.Builtin)
				if !isB || b2.Name() != "append" {
					ok = false
					continue
				}
				ld, isLd := call.Call.Args[0].(*ssa.UnOp)
				if !isLd || ld.X != ssa.Value(al) {
					ok = false
				}
			}
		}
		if ok && n > 0 {
			appendOnly[al] = true
		}
	}
	for _, s := range all {
		if s.local != nil || s.ghost != "" {
			continue
		}
		la := l.modArrs[s.arr]
		if la == nil {
			la = &loopArr{sort: s.sort}
			l.modArrs[s.arr] = la
		}
		switch {
		case s.fresh:
		case s.whole || s.root == nil:
			la.whole = true
		case s.appendTo != nil && appendOnly[s.appendTo]:
			al := s.appendTo
			la.locFn = append(la.locFn, func(pre *State) (Loc, bool) { return Loc{LocElems, ft.localGet(pre, al)}, true })
		default:
			root, kind := s.root, s.kind
			la.locFn = append(la.locFn, func(pre *State) (Loc, bool) {
				t, ok := ft.invariantTerm(root, l, pre)
				if !ok {
					return Loc{}, false
				}
				return Loc{kind, t}, true
			})
		}
	}
	return nil
}

// loopModSet evaluates the loop's write set at the loop head.
func (ft *FuncTr) loopModSet(l *LoopInfo, pre *State) *ModSet {
	ms := newModSet()
	for n, la := range l.modArrs {
		am := ms.get(n, la.sort)
		am.whole = la.whole
		for _, f := range la.locFn {
			loc, ok := f(pre)
			if !ok {
				am.whole = true
				continue
			}
			am.locs = append(am.locs, loc)
		}
		if os.Getenv("GOVC_DEBUG_LOOPMODS") != "" {
			fmt.Fprintf(os.Stderr, "loopmod %s loop%d %s whole=%v locs=%d\n", shortFuncName(ft.fn), l.Ordinal, n, am.whole, len(am.locs))
		}
	}
	return ms
}
