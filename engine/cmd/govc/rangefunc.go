package main

// Range-over-func: `for k := range seq` is compiled by go/ssa into a call seq(yield) where yield is a
// synthetic closure holding the loop body. The call is translated as a loop over the key set of the
// iterator, cut at the invariants the parent's contract gives for that source loop; each iteration
// is the yield closure's contract.

import (
	"fmt"
	"go/ast"
	"go/types"

	"golang.org/x/tools/go/ssa"
)

func (ft *FuncTr) seqKeys(seq *Term, ks *Sort) *Term {
	name := "seqkeys_" + ks.Mangle()
	ft.d.Fun(name, []*Sort{SFn}, SArray(ks, SBool))
	return mk(SArray(ks, SBool), name, seq)
}

// mapsKeys models maps.Keys(m): an iterator over the keys m has now.
func (ft *FuncTr) mapsKeys(st *State, at *Term, c *ssa.CallCommon, args []Val) (Val, error) {
	mt, ok := c.Args[0].Type().Underlying().(*types.Map)
	if !ok {
		return Val{}, unsupported("maps.Keys of non-map")
	}
	ks := ft.w.sortOf(ft.d, mt.Key())
	r := ft.d.Fresh("seq", SFn)
	ft.assume(at, Eq(ft.seqKeys(r, ks), ft.h.mapDom(st, mt, args[0].T)))
	ft.w.assume("maps.Keys(m): the iterator ranges over the keys m has when maps.Keys is called (m is assumed not to be mutated before or during the iteration)")
	return Val{T: r}, nil
}

func (ft *FuncTr) rangeFuncCall(st *State, at *Term, in ssa.Instruction, c *ssa.CallCommon, args []Val, fnv Val) (Val, error) {
	if len(args) != 1 || args[0].Fn == nil || args[0].Fn.Synthetic != "range-over-func yield" {
		return Val{}, unsupported("call of iterator with a non-synthetic yield function")
	}
	yield := args[0]
	yfn := yield.Fn
	if yfn.Signature.Params().Len() != 1 {
		return Val{}, unsupported("range over iter.Seq2")
	}
	name := calleeName(yfn)
	con := ft.w.contractFor(name)
	if con == nil {
		return Val{}, unsupported("range-over-func body " + name + " needs a contract")
	}
	con.Used = true
	kty := yfn.Signature.Params().At(0).Type()
	ks := ft.w.sortOf(ft.d, kty)
	keys := ft.d.Fresh("rfkeys", SArray(ks, SBool))
	ft.assume(at, Eq(keys, ft.seqKeys(fnv.T, ks)))
	// ordinal of the source loop
	var node ast.Node = yfn.Syntax()
	ord, ai := 0, -1
	for i, a := range ft.astLoops {
		if a == node || (node != nil && a.Pos() == node.Pos()) {
			ord, ai = ft.ordOfAst[i], i
		}
	}
	if ord == 0 {
		return Val{}, unsupported("cannot find the source loop of a range-over-func")
	}
	l := &LoopInfo{Ordinal: ord, Node: ft.astLoops[ai], RangeFunc: yfn, rfKeys: keys}
	gname := fmt.Sprintf("$rfv%d", ord)
	l.rfGhost = gname
	l.rfSort = SArray(ks, SBool)
	ft.rfLoops = append(ft.rfLoops, l)
	pre := st.clone()
	pre.ghost[gname] = ConstArray(SArray(ks, SBool), TFalse)
	l.pre, l.preAt = pre, at
	pos := in.Pos()
	invs := ft.invariants(l)
	env := ft.newEnv(pre)
	env.loop, env.pre = l, pre
	for i, inv := range invs {
		t, err := env.trBool(inv.E)
		if err != nil {
			return Val{}, fmt.Errorf("loop %d invariant[%d] (%s:%d): %v", ord, i+1, inv.File, inv.Line, err)
		}
		ft.assert(at, t, fmt.Sprintf("loop%d.inv[%s].establish", ord, clauseID(inv, i)), "", inv.Text, pos)
	}
	// write set of one iteration = the yield closure's modifies, evaluated at loop entry
	vars := map[string]SV{}
	for i, fv := range yfn.FreeVars {
		vars[fv.Name()] = bindSV(yield.Binds[i], fv)
	}
	mkEnv := func(s *State) *SpecEnv {
		return &SpecEnv{h: ft.h, w: ft.w, pkg: ft.w.pkgOfFunc(yfn), vars: vars, st: s, old: s, qn: &ft.qn}
	}
	ms, err := ft.w.modsOfCall(ft.h, mkEnv(pre), name, con, yfn, map[string]bool{})
	if err != nil {
		return Val{}, err
	}
	head := pre.clone()
	preNext := ft.h.nextID(pre)
	for _, n := range ms.names() {
		am := ms.arrs[n]
		before := ft.h.arr(pre, n, am.sort)
		after := ft.d.Fresh(fmt.Sprintf("%s_rf%d", n, ord), am.sort)
		head.heap[n] = after
		ft.h.arrSorts[n] = am.sort
		if !am.whole {
			ft.assume(at, frameCond(am, before, after, preNext))
		}
		if !am.whole && len(am.locs) == 0 {
			ft.h.noteFreshFrame(before, after, preNext)
		}
	}
	for _, n := range sortedKeys(ms.ghost) {
		nv := ft.d.Fresh(fmt.Sprintf("g_%s_rf%d", n, ord), ms.ghost[n])
		if n == "$next" {
			ft.assume(at, Le(preNext, nv))
		}
		head.ghost[n] = nv
	}
	for _, n := range ms.names() {
		ft.h.noteHavoc(head.heap[n], ft.h.nextID(head))
		ft.h.noteMapArr(head, n)
	}
	V := ft.d.Fresh(fmt.Sprintf("visited_rf%d", ord), SArray(ks, SBool))
	head.ghost[gname] = V
	qk := &Term{"rk", ks}
	ft.assume(at, Forall([]Bound{{"rk", ks}}, Implies(Select(V, qk), Select(keys, qk)), []*Term{Select(V, qk)}))
	envH := ft.newEnv(head)
	envH.loop, envH.pre = l, pre
	var side []*Term
	envH.side = &side
	for _, inv := range invs {
		t, err := envH.trBool(inv.E)
		if err != nil {
			return Val{}, err
		}
		ft.assume(at, t)
	}
	for _, s := range side {
		ft.assume(at, s)
	}
	if len(invs) > 0 {
		ft.cover(at, fmt.Sprintf("cover.loop%d", ord), "")
	}
	// one arbitrary iteration
	itAt := ft.d.Fresh(fmt.Sprintf("at_rf%d", ord), SBool)
	ft.assumeRaw(Implies(itAt, at))
	k := ft.d.Fresh("rf_k", ks)
	ft.assume(itAt, And(Select(keys, k), Not(Select(V, k)), ft.w.rangeAssume(ft.d, k, kty)))
	stI := head.clone()
	r, err := ft.applyContract(stI, itAt, in, name, con, yfn, yfn.Signature, []*Term{k}, yield)
	if err != nil {
		return Val{}, err
	}
	ft.assert(itAt, r.T, "rangefunc.nobreak", "", "the loop body continues (break / return inside a range-over-func body is not supported)", pos)
	stI.ghost[gname] = Store(V, k, TTrue)
	// the locations written must be the same in every iteration
	ms2, err := ft.w.modsOfCall(ft.h, mkEnv(stI), name, con, yfn, map[string]bool{})
	if err == nil {
		for _, n := range ms.names() {
			a1, a2 := ms.arrs[n], ms2.arrs[n]
			if a2 == nil || len(a1.locs) != len(a2.locs) {
				continue
			}
			for i := range a1.locs {
				ft.assert(itAt, Eq(a1.locs[i].t, a2.locs[i].t), "rangefunc.frame", n, "modifies locations of the loop body do not change between iterations", pos)
			}
		}
	}
	envI := ft.newEnv(stI)
	envI.loop, envI.pre = l, pre
	for i, inv := range invs {
		t, err := envI.trBool(inv.E)
		if err != nil {
			return Val{}, err
		}
		ft.assert(itAt, t, fmt.Sprintf("loop%d.inv[%s].maintain", ord, clauseID(inv, i)), "", inv.Text, pos)
	}
	// exit: every key visited
	*st = *head
	ft.assume(at, Forall([]Bound{{"rk", ks}}, Implies(Select(keys, qk), Select(V, qk)), []*Term{Select(keys, qk)}))
	return Val{}, nil
}
