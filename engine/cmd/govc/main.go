package main

import (
	"runtime"
	"regexp"
	"go/ast"
	"encoding/json"
	"flag"
	"fmt"
	"os"
	"path/filepath"
	"sort"
	"strconv"
	"strings"
	"sync"
	"time"

	"golang.org/x/tools/go/ssa"
)

// PropConfig is /verif/props/<id>.json
type PropConfig struct {
	ID          string   `json:"id"`
	Packages    []string `json:"packages"`
	Functions   []string `json:"functions"`
	GuardExempt map[string]string `json:"guard_exempt"` // accessor of guarded state not under contract -> reason
	GuardCoverage bool `json:"guard_coverage"` // require every accessor of guarded state in the packages to be under contract
	Lemmas      []string `json:"lemmas"`
	Uncovered   []string `json:"uncovered_clauses"`
	Assumptions []string `json:"assumptions"`
	Bounded     []string `json:"bounded"`
	AuditRoots  []string `json:"audit_roots"` // C18: roots of the nondeterminism-source audit
}

type OblResult struct {
	Name    string  `json:"name"`
	Func    string  `json:"func"`
	Kind    string  `json:"kind"`
	Status  string  `json:"status"`
	Solver  string  `json:"solver"`
	Secs    float64 `json:"secs"`
	Pos     string  `json:"pos,omitempty"`
	Clause  string  `json:"clause,omitempty"`
	Cover   bool    `json:"cover,omitempty"`
	File    string  `json:"-"`
	Output  string  `json:"-"`
	All     []SolverResult `json:"-"`
}

var auditInfo []map[string]interface{}
var verifRoot = "/verif"
var repoRoot = "/repo"

func main() {
	memoryWatchdog()
	if v := os.Getenv("VERIF_ROOT"); v != "" {
		verifRoot = v
	}
	if v := os.Getenv("VERIF_REPO"); v != "" {
		repoRoot = v
	}
	if len(os.Args) < 2 {
		fmt.Fprintln(os.Stderr, "usage: govc check|record|dump ...")
		os.Exit(2)
	}
	switch os.Args[1] {
	case "check", "record":
		os.Exit(cmdCheck(os.Args[1] == "record", os.Args[2:]))
	case "dump":
		os.Exit(cmdDump(os.Args[2:]))
	case "binds":
		os.Exit(cmdBinds(os.Args[2:]))
	}
	fmt.Fprintln(os.Stderr, "unknown command")
	os.Exit(2)
}

// memoryWatchdog aborts the run (UNDECIDED, exit 2) when the translation needs more than the budget: a blow-up of the
// symbolic state on code far outside what the contracts were written for must not take the machine down.
func memoryWatchdog() {
	const budget = 24 << 30
	go func() {
		var ms runtime.MemStats
		for {
			time.Sleep(2 * time.Second)
			runtime.ReadMemStats(&ms)
			if ms.HeapAlloc > budget {
				fmt.Printf("UNDECIDED: the translation exceeded its memory budget (%d GiB); no verdict\n", budget>>30)
				os.Exit(2)
			}
		}
	}()
}

func (w *World) funcIndex() map[string]*ssa.Function {
	idx := map[string]*ssa.Function{}
	var addFn func(f *ssa.Function)
	addFn = func(f *ssa.Function) {
		if f == nil {
			return
		}
		idx[f.String()] = f
		for _, a := range f.AnonFuncs {
			addFn(a)
		}
	}
	for path, sp := range w.ssaPkgs {
		if !strings.HasPrefix(path, "go.universe.tf/metallb") {
			continue
		}
		for _, m := range sp.Members {
			switch x := m.(type) {
			case *ssa.Function:
				addFn(x)
			case *ssa.Type:
				t := x.Type()
				for _, tt := range []interface{ String() string }{t} {
					_ = tt
				}
				ms := w.prog.MethodSets.MethodSet(t)
				for i := 0; i < ms.Len(); i++ {
					addFn(w.prog.MethodValue(ms.At(i)))
				}
				pms := w.prog.MethodSets.MethodSet(typesPointer(t))
				for i := 0; i < pms.Len(); i++ {
					addFn(w.prog.MethodValue(pms.At(i)))
				}
			}
		}
	}
	return idx
}

func loadProp(id string) (*PropConfig, error) {
	b, err := os.ReadFile(filepath.Join(verifRoot, "props", id+".json"))
	if err != nil {
		return nil, err
	}
	var pc PropConfig
	if err := json.Unmarshal(b, &pc); err != nil {
		return nil, err
	}
	return &pc, nil
}

func expandFuncName(n string) string {
	// allow short names relative to the module path
	if strings.Contains(n, "go.universe.tf/metallb") {
		return n
	}
	switch {
	case strings.HasPrefix(n, "(*"):
		return "(*go.universe.tf/metallb/" + n[2:]
	case strings.HasPrefix(n, "("):
		return "(go.universe.tf/metallb/" + n[1:]
	}
	return "go.universe.tf/metallb/" + n
}

func cmdCheck(record bool, args []string) int {
	fs := flag.NewFlagSet("check", flag.ExitOnError)
	prop := fs.String("prop", "", "property id")
	tier := fs.String("tier", "quick", "quick|thorough")
	keep := fs.Bool("keep", false, "keep SMT files")
	only := fs.String("only", "", "only functions containing this substring (debug; no evidence)")
	verbose := fs.Bool("v", false, "print every obligation result")
	fs.Parse(args)
	t0 := time.Now()
	pc, err := loadProp(*prop)
	if err != nil {
		fmt.Fprintln(os.Stderr, "error:", err)
		return 2
	}
	seed := 0
	if s := os.Getenv("VERIF_SEED"); s != "" {
		seed, _ = strconv.Atoi(s)
	}
	w, err := loadWorld(repoRoot, pc.Packages, filepath.Join(verifRoot, "stubs"))
	if err != nil {
		fmt.Fprintln(os.Stderr, "UNDECIDED: cannot load packages:", err)
		return 2
	}
	tLoad := time.Since(t0).Seconds()
	idx := w.funcIndex()
	w.rebindClosures(idx)
	var fns []*ssa.Function
	var cons []*Contract
	var translErrs []string
	for _, n := range pc.Functions {
		full := expandFuncName(n)
		if a := w.closureAlias[full]; a != "" {
			full = a
		}
		if *only != "" && !strings.Contains(full, *only) {
			continue
		}
		f := idx[full]
		if f == nil {
			translErrs = append(translErrs, "function not found: "+full)
			continue
		}
		c := w.contractFor(calleeName(f))
		if c == nil {
			translErrs = append(translErrs, "no contract for "+full)
			continue
		}
		fns = append(fns, f)
		cons = append(cons, c)
	}
	for _, f := range fns {
		w.prepassFunc(f)
	}
	// also pre-pass every function that has a contract (callee specs may need its fields)
	for name := range w.contracts {
		if f := idx[name]; f != nil {
			w.prepassFunc(f)
		}
	}
	workDir, _ := os.MkdirTemp("", "govc-"+pc.ID+"-")
	if !*keep {
		defer os.RemoveAll(workDir)
	}
	timeout := 30
	if *tier == "thorough" {
		timeout = 60
	}
	// on an overloaded machine (other checks running beside this one) a query that needs 5 s may need 30: stretch the
	// budget by the load per core (at most 3x), so that a pass does not depend on what else is running
	if b, err := os.ReadFile("/proc/loadavg"); err == nil {
		var l1 float64
		if _, err := fmt.Sscanf(string(b), "%f", &l1); err == nil {
			if f := l1 / float64(runtime.NumCPU()); f > 1 {
				if f > 3 {
					f = 3
				}
				timeout = int(float64(timeout) * f)
			}
		}
	}
	type job struct {
		o    *Obligation
		file string
		alt  string // the same query with no assumption pruned (raced as a fallback), "" if nothing was pruned
	}
	var jobs []job
	var funcsUnder []string
	for i, f := range fns {
		res := verifyFunc(w, f, cons[i])
		if res.Err != nil {
			translErrs = append(translErrs, res.Err.Error())
			continue
		}
		translErrs = append(translErrs, res.Warn...)
		fu := shortFuncName(f)
		switch {
		case cons[i].LockOnly:
			fu += " [lock discipline only; callees without contract abstracted]"
		case cons[i].Abstract:
			fu += " [declared clauses only; unmodelled callees / instructions abstracted]"
		}
		funcsUnder = append(funcsUnder, fu)
		for _, o := range res.Obls {
			file := filepath.Join(workDir, sanitize(o.Name)+".smt2")
			var b strings.Builder
			b.WriteString(res.Decls)
			full := res.Cons[:o.PrefixLen]
			pruned := pruneCons(full, o.At.S)
			mk := func(cons []string) string {
				var b strings.Builder
				b.WriteString(res.Decls)
				for _, c := range cons {
					b.WriteString("(assert ")
					b.WriteString(c)
					b.WriteString(")\n")
				}
				fmt.Fprintf(&b, "; obligation %s\n; %s\n(assert %s)\n(assert (not %s))\n(check-sat)\n", o.Name, strings.ReplaceAll(o.Clause, "\n", " "), o.At.S, o.Goal.S)
				if !o.Cover {
					b.WriteString("(get-model)\n")
				}
				body := b.String()
				return smtHeader(body) + body
			}
			_ = b
			writeFile(file, mk(pruned))
			alt := ""
			if len(pruned) != len(full) && !o.Cover {
				alt = strings.TrimSuffix(file, ".smt2") + ".full.smt2"
				writeFile(alt, mk(full))
			}
			jobs = append(jobs, job{o, file, alt})
		}
	}
	// audit of nondeterminism sources below the given roots: each must sit in a function under contract
	auditInfo = nil
	if len(pc.AuditRoots) > 0 {
		var roots []*ssa.Function
		for _, r := range pc.AuditRoots {
			if f := idx[expandFuncName(r)]; f != nil {
				roots = append(roots, f)
			} else {
				translErrs = append(translErrs, "audit root not found: "+r)
			}
		}
		under := map[string]bool{}
		for _, f := range fns {
			under[shortFuncName(f)] = true
		}
		for _, s := range auditNondet(w, roots) {
			auditInfo = append(auditInfo, map[string]interface{}{"func": s.Func, "kind": s.Kind, "pos": s.Pos, "under_contract": under[s.Func]})
		}
	}
	// lock discipline coverage: every function that touches guarded state must be under contract (or exempted with a reason)
	var coverageFails []*OblResult
	if pc.GuardCoverage && len(w.guarded) > 0 && *only == "" {
		under := map[string]bool{}
		for _, f := range fns {
			under[shortFuncName(f)] = true
		}
		var all []*ssa.Function
		for _, n := range sortedFuncNames(idx) {
			f := idx[n]
			if f.Pkg == nil || f.Synthetic != "" {
				continue
			}
			for _, pp := range pc.Packages {
				if f.Pkg.Pkg.Path() == pp {
					all = append(all, f)
					break
				}
			}
		}
		acc := w.guardedAccessors(all)
		var fields []string
		for k := range acc {
			fields = append(fields, k)
		}
		sort.Strings(fields)
		for _, fld := range fields {
			for _, fn := range acc[fld] {
				if under[fn] {
					continue
				}
				if why, ok := pc.GuardExempt[fn]; ok {
					w.assume("accessor of guarded state " + fld + " not under contract: " + fn + " (" + why + ")")
					continue
				}
				coverageFails = append(coverageFails, &OblResult{Name: fn + "#guard.coverage{" + fld + "}", Func: fn, Kind: "guard.coverage", Status: "sat", Solver: "audit",
					Clause: "every function touching guarded state " + fld + " is under contract (lock discipline)", Output: "function " + fn + " accesses " + fld + " and is not in the property's function list"})
			}
		}
	}
	// functions declared concurrent (status fetchers running beside the handlers) read no unguarded mutable field
	{
		var mutable map[string]string
		for _, fn := range fns {
			c := w.contractFor(fn.String())
			if c == nil || !c.Concurrent {
				continue
			}
			if mutable == nil {
				var all []*ssa.Function
				for _, n := range sortedFuncNames(idx) {
					if f := idx[n]; f.Pkg != nil && f.Synthetic == "" && strings.HasPrefix(f.Pkg.Pkg.Path(), "go.universe.tf/metallb") {
						all = append(all, f)
					}
				}
				mutable = w.mutableFields(all)
			}
			bad := w.concurrentReads(fn, mutable)
			var flds []string
			for k := range bad {
				flds = append(flds, k)
			}
			sort.Strings(flds)
			name := shortFuncName(fn)
			if len(flds) == 0 {
				coverageFails = append(coverageFails, &OblResult{Name: name + "#concurrent.read", Func: name, Kind: "concurrent.read", Status: "unsat", Solver: "audit",
					Clause: "a function running beside the handlers reads no field that is written elsewhere unless a mutex guards it"})
			}
			for _, fld := range flds {
				coverageFails = append(coverageFails, &OblResult{Name: name + "#concurrent.read{" + fld + "}", Func: name, Kind: "concurrent.read", Status: "sat", Solver: "audit",
					Clause:  "a function running beside the handlers reads no field that is written elsewhere unless a mutex guards it",
					Output:  "reads " + fld + ", which " + bad[fld] + " writes and no guarded_by declaration covers", Pos: w.prog.Fset.Position(fn.Pos()).String()})
			}
		}
	}
	// lemmas (those applied inside function VCs are always proved in the same run)
	// a lemma applied in a function is proved together with the lemmas declared before it in its package (its hypotheses)
	for n := range w.usedLemmas {
		var pkgOf string
		for _, l := range w.lemmas {
			if l.Name == n {
				pkgOf = l.Pkg
			}
		}
		for _, l := range w.lemmas {
			if l.Pkg == pkgOf {
				w.usedLemmas[l.Name] = true
			}
			if l.Name == n {
				break
			}
		}
	}
	for n := range w.usedLemmas {
		has := false
		for _, pat := range pc.Lemmas {
			if pat == n || (strings.HasSuffix(pat, "*") && strings.HasPrefix(n, strings.TrimSuffix(pat, "*"))) {
				has = true
			}
		}
		if !has {
			pc.Lemmas = append(pc.Lemmas, n)
		}
	}
	sort.Strings(pc.Lemmas)
	lj, lerrs := lemmaJobs(w, pc, workDir)
	translErrs = append(translErrs, lerrs...)
	for _, j := range lj {
		jobs = append(jobs, job{j.o, j.file, ""})
	}
	tTrans := time.Since(t0).Seconds() - tLoad
	// solve
	results := make([]*OblResult, len(jobs))
	var wg sync.WaitGroup
	sem := make(chan struct{}, 8)
	for i, j := range jobs {
		wg.Add(1)
		go func(i int, j job) {
			defer wg.Done()
			sem <- struct{}{}
			defer func() { <-sem }()
			var r SolverResult
			var all []SolverResult
			if j.o.Cover {
				r = runSolverSimple("z3-new", j.file, 1)
				all = []SolverResult{r}
			} else {
				r, all = raceSolvers(j.file, j.alt, timeout, *tier == "thorough")
			}
			results[i] = &OblResult{Name: j.o.Name, Func: j.o.Func, Kind: j.o.Kind, Status: r.Status, Solver: r.Solver, Secs: r.Secs, Pos: j.o.Pos, Clause: j.o.Clause, Cover: j.o.Cover, File: j.file, Output: r.Output, All: all}
		}(i, j)
	}
	wg.Wait()
	for _, r := range results {
		if !r.Cover && r.Secs > float64(timeout)/3 && r.Status == "unsat" {
			fmt.Printf("note: slow obligation %.1fs (%s) %s\n", r.Secs, r.Solver, r.Name)
		}
	}
	if *verbose {
		for _, r := range results {
			fmt.Printf("  %-8s %-7s %6.2fs %s\n", r.Status, r.Solver, r.Secs, r.Name)
		}
	}
	results = append(results, coverageFails...)
	return report(w, pc, *tier, seed, record, *only != "", results, translErrs, funcsUnder, t0, tLoad, tTrans)
}

func runSolverSimple(solver, file string, t int) SolverResult {
	return runSolver(ctxBackground(), solver, file, t)
}

func cmdDump(args []string) int {
	fs := flag.NewFlagSet("dump", flag.ExitOnError)
	pkgs := fs.String("pkgs", "", "comma separated packages")
	fn := fs.String("func", "", "function full name")
	obl := fs.String("obl", "", "print SMT of the obligation with this name substring")
	fs.Parse(args)
	w, err := loadWorld(repoRoot, strings.Split(*pkgs, ","), filepath.Join(verifRoot, "stubs"))
	if err != nil {
		fmt.Fprintln(os.Stderr, err)
		return 2
	}
	idx := w.funcIndex()
	full := expandFuncName(*fn)
	f := idx[full]
	if f == nil {
		var names []string
		for n := range idx {
			if strings.Contains(n, *fn) {
				names = append(names, n)
			}
		}
		sort.Strings(names)
		fmt.Fprintln(os.Stderr, "function not found; candidates:", names)
		return 2
	}
	f.WriteTo(os.Stdout)
	c := w.contractFor(calleeName(f))
	if c == nil {
		fmt.Println("no contract")
		return 0
	}
	w.prepassFunc(f)
	for name := range w.contracts {
		if g := idx[name]; g != nil {
			w.prepassFunc(g)
		}
	}
	res := verifyFunc(w, f, c)
	if res.Err != nil {
		fmt.Println("ERROR:", res.Err)
	}
	for _, o := range res.Obls {
		fmt.Printf("%s  @%s  prefix=%d\n", o.Name, o.Pos, o.PrefixLen)
		if *obl != "" && strings.Contains(o.Name, *obl) {
			fmt.Println(smtHeader(res.Decls + strings.Join(res.Cons[:o.PrefixLen], " ") + o.Goal.S))
			fmt.Println(res.Decls)
			for _, c := range res.Cons[:o.PrefixLen] {
				fmt.Printf("(assert %s)\n", c)
			}
			fmt.Printf("(assert %s)\n(assert (not %s))\n(check-sat)\n(get-model)\n", o.At.S, o.Goal.S)
		}
	}
	return 0
}

func sortedFuncNames(m map[string]*ssa.Function) []string {
	out := make([]string, 0, len(m))
	for k := range m {
		out = append(out, k)
	}
	sort.Strings(out)
	return out
}

// cmdBinds prints, for every contract with loop invariants, the 'loop N binds x' lines that tie each ordinal to the
// variable its source loop declares (contract file, contract line, function, ordinal, name).
func cmdBinds(args []string) int {
	fs := flag.NewFlagSet("binds", flag.ExitOnError)
	pkgs := fs.String("pkgs", "", "comma separated packages")
	fs.Parse(args)
	w, err := loadWorld(repoRoot, strings.Split(*pkgs, ","), filepath.Join(verifRoot, "stubs"))
	if err != nil {
		fmt.Fprintln(os.Stderr, err)
		return 2
	}
	idx := w.funcIndex()
	var names []string
	for n := range w.contracts {
		names = append(names, n)
	}
	sort.Strings(names)
	for _, n := range names {
		c := w.contracts[n]
		f := idx[n]
		if f == nil || len(c.Loops) == 0 {
			continue
		}
		var body *ast.BlockStmt
		switch x := f.Syntax().(type) {
		case *ast.FuncDecl:
			body = x.Body
		case *ast.FuncLit:
			body = x.Body
		}
		if body == nil {
			continue
		}
		var loops []ast.Node
		ast.Inspect(body, func(n ast.Node) bool {
			switch n.(type) {
			case *ast.FuncLit:
				return false
			case *ast.ForStmt, *ast.RangeStmt:
				loops = append(loops, n)
			}
			return true
		})
		var ords []int
		for o := range c.Loops {
			ords = append(ords, o)
		}
		sort.Ints(ords)
		for _, o := range ords {
			if _, ok := c.LoopBinds[o]; ok || o < 1 || o > len(loops) {
				continue
			}
			name := ""
			id := func(e ast.Expr) string {
				if i, ok := e.(*ast.Ident); ok && i.Name != "_" {
					return i.Name
				}
				return ""
			}
			switch x := loops[o-1].(type) {
			case *ast.RangeStmt:
				if x.Value != nil {
					name = id(x.Value)
				}
				if name == "" && x.Key != nil {
					name = id(x.Key)
				}
			case *ast.ForStmt:
				if as, ok := x.Init.(*ast.AssignStmt); ok && len(as.Lhs) > 0 {
					name = id(as.Lhs[0])
				}
			}
			if name == "" {
				fmt.Printf("# %s loop %d: no variable to bind\n", n, o)
				continue
			}
			k := 1
			for _, a := range loops[:o-1] {
				if loopDeclares(a, name) {
					k++
				}
			}
			if k > 1 {
				name = fmt.Sprintf("%s#%d", name, k)
			}
			fmt.Printf("%s\t%d\t%s\t%d\t%s\n", c.File, c.Line, n, o, name)
		}
	}
	return 0
}

var atomRe = regexp.MustCompile(`at_b\d+(?:_p\d+)?`)

// pruneCons drops the assumptions that are guarded by the reachability atom of a block which is not an ancestor of the
// obligation's program point (the atoms reachable from the obligation's own condition through the atoms' definitions).
// Dropping assumptions is sound; these cannot contribute: their guard is false on every path through the obligation's
// point. It keeps quantified facts of unrelated paths (e.g. the postconditions at return blocks) out of the query.
func pruneCons(cons []string, at string) []string {
	if os.Getenv("GOVC_NOPRUNE") != "" {
		return cons
	}
	start := atomRe.FindAllString(at, -1)
	if len(start) == 0 {
		return cons
	}
	defs := map[string][]string{}
	for _, c := range cons {
		if strings.HasPrefix(c, "(= at_b") {
			rest := c[3:]
			i := strings.IndexAny(rest, " )")
			if i < 0 {
				continue
			}
			defs[rest[:i]] = atomRe.FindAllString(rest[i:], -1)
		}
	}
	rel := map[string]bool{}
	var visit func(a string)
	visit = func(a string) {
		if rel[a] {
			return
		}
		rel[a] = true
		for _, d := range defs[a] {
			visit(d)
		}
	}
	for _, a := range start {
		visit(a)
	}
	out := make([]string, 0, len(cons))
	for _, c := range cons {
		guard := ""
		switch {
		case strings.HasPrefix(c, "(=> at_b"):
			guard = atomRe.FindString(c[4:])
		case strings.HasPrefix(c, "(=> (and at_b"):
			guard = atomRe.FindString(c[9:])
		case strings.HasPrefix(c, "(= at_b"):
			guard = atomRe.FindString(c[3:])
		}
		if guard != "" && !rel[guard] {
			continue
		}
		out = append(out, c)
	}
	return out
}
