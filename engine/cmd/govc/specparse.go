package main

// Lexer and parser for the //@ contract language.

import (
	"fmt"
	"strings"
	"unicode"
)

type Expr interface{}

type (
	EIdent struct{ Name string }
	EInt   struct{ Val string }
	EStr   struct{ Val string }
	EBool  struct{ Val bool }
	ENil   struct{}
	EUnary struct {
		Op string
		X  Expr
	}
	EBinary struct {
		Op   string
		X, Y Expr
	}
	ECall struct {
		Fun  Expr
		Args []Expr
	}
	ESel struct {
		X    Expr
		Name string
	}
	EIndex struct {
		X, I Expr
	}
	ESlice struct {
		X, Lo, Hi Expr
	}
	QVar struct {
		Name     string
		TypeText string
	}
	EQuant struct {
		Forall   bool
		Vars     []QVar
		Triggers [][]Expr
		Body     Expr
	}
	EOld struct {
		X     Expr
		Label string // "" = function entry; "loop" = loop entry
	}
	ELet struct {
		Name string
		Val  Expr
		Body Expr
	}
	ETypeLit struct{ TypeText string } // used as T(e) conversion target or in type position
)

type stok struct {
	kind string // ident int str op eof
	val  string
}

type lexer struct {
	src  string
	pos  int
	toks []stok
}

var ops = []string{"<==>", "==>", "::", ":=", "==", "!=", "<=", ">=", "&&", "||", "<", ">", "!", "+", "-", "*", "/", "%", "(", ")", "[", "]", ".", ",", ":", "{", "}", "&", "?", "|"}

func lex(src string) ([]stok, error) {
	var toks []stok
	i := 0
	for i < len(src) {
		c := src[i]
		if c == ' ' || c == '\t' || c == '\n' || c == '\r' {
			i++
			continue
		}
		if unicode.IsLetter(rune(c)) || c == '_' || c == '$' {
			j := i
			for j < len(src) && (unicode.IsLetter(rune(src[j])) || unicode.IsDigit(rune(src[j])) || src[j] == '_' || src[j] == '$') {
				j++
			}
			toks = append(toks, stok{"ident", src[i:j]})
			i = j
			continue
		}
		if unicode.IsDigit(rune(c)) {
			j := i
			for j < len(src) && (unicode.IsDigit(rune(src[j])) || src[j] == 'x' || (src[j] >= 'a' && src[j] <= 'f') || (src[j] >= 'A' && src[j] <= 'F')) {
				j++
			}
			toks = append(toks, stok{"int", src[i:j]})
			i = j
			continue
		}
		if c == '"' {
			j := i + 1
			var b strings.Builder
			for j < len(src) && src[j] != '"' {
				if src[j] == '\\' && j+1 < len(src) {
					j++
					switch src[j] {
					case 'n':
						b.WriteByte('\n')
					case 't':
						b.WriteByte('\t')
					default:
						b.WriteByte(src[j])
					}
					j++
					continue
				}
				b.WriteByte(src[j])
				j++
			}
			if j >= len(src) {
				return nil, fmt.Errorf("unterminated string")
			}
			toks = append(toks, stok{"str", b.String()})
			i = j + 1
			continue
		}
		matched := false
		for _, o := range ops {
			if strings.HasPrefix(src[i:], o) {
				toks = append(toks, stok{"op", o})
				i += len(o)
				matched = true
				break
			}
		}
		if !matched {
			return nil, fmt.Errorf("unexpected character %q", c)
		}
	}
	toks = append(toks, stok{"eof", ""})
	return toks, nil
}

type parser struct {
	toks []stok
	p    int
}

func (p *parser) peek() stok { return p.toks[p.p] }
func (p *parser) next() stok { t := p.toks[p.p]; p.p++; return t }
func (p *parser) isOp(o string) bool {
	t := p.peek()
	return t.kind == "op" && t.val == o
}
func (p *parser) isIdent(s string) bool {
	t := p.peek()
	return t.kind == "ident" && t.val == s
}
func (p *parser) expectOp(o string) error {
	if !p.isOp(o) {
		return fmt.Errorf("expected %q, got %q", o, p.peek().val)
	}
	p.next()
	return nil
}

func ParseExpr(src string) (e Expr, err error) {
	toks, err := lex(src)
	if err != nil {
		return nil, err
	}
	p := &parser{toks: toks}
	defer func() {
		if r := recover(); r != nil {
			if pe, ok := r.(parseErr); ok {
				err = fmt.Errorf("%s in %q", string(pe), src)
				return
			}
			panic(r)
		}
	}()
	e = p.expr()
	if p.peek().kind != "eof" {
		return nil, fmt.Errorf("trailing tokens at %q in %q", p.peek().val, src)
	}
	return e, nil
}

type parseErr string

func (p *parser) fail(f string, a ...interface{}) { panic(parseErr(fmt.Sprintf(f, a...))) }

func (p *parser) expr() Expr {
	t := p.peek()
	if t.kind == "ident" && (t.val == "forall" || t.val == "exists") {
		p.next()
		q := &EQuant{Forall: t.val == "forall"}
		q.Vars = p.qvars()
		if err := p.expectOp("::"); err != nil {
			p.fail("%v", err)
		}
		for p.isOp("{") {
			p.next()
			var trig []Expr
			for {
				trig = append(trig, p.expr())
				if p.isOp(",") {
					p.next()
					continue
				}
				break
			}
			if err := p.expectOp("}"); err != nil {
				p.fail("%v", err)
			}
			q.Triggers = append(q.Triggers, trig)
		}
		q.Body = p.expr()
		return q
	}
	if t.kind == "ident" && t.val == "let" {
		p.next()
		n := p.next()
		if n.kind != "ident" {
			p.fail("let: expected identifier")
		}
		if err := p.expectOp(":="); err != nil {
			p.fail("%v", err)
		}
		v := p.add()
		if !p.isIdent("in") {
			p.fail("let: expected 'in'")
		}
		p.next()
		b := p.expr()
		return &ELet{n.val, v, b}
	}
	return p.iff()
}

func (p *parser) qvars() []QVar {
	var out []QVar
	for {
		var names []string
		for {
			n := p.next()
			if n.kind != "ident" {
				p.fail("quantifier: expected variable name, got %q", n.val)
			}
			names = append(names, n.val)
			if p.isOp(",") {
				p.next()
				continue
			}
			break
		}
		ty := p.typeText()
		for _, n := range names {
			out = append(out, QVar{n, ty})
		}
		if p.isOp(",") {
			p.next()
			continue
		}
		break
	}
	return out
}

// typeText consumes tokens of a Go type up to a top-level ',' or '::' or ')' .
func (p *parser) typeText() string {
	depth := 0
	var b strings.Builder
	for {
		t := p.peek()
		if t.kind == "eof" {
			break
		}
		if t.kind == "op" {
			if depth == 0 && (t.val == "," || t.val == "::" || t.val == ")" || t.val == ":=") {
				break
			}
			if t.val == "[" || t.val == "(" {
				depth++
			}
			if t.val == "]" || t.val == ")" {
				depth--
			}
		}
		if t.kind == "ident" && b.Len() > 0 {
			s := b.String()
			last := s[len(s)-1]
			if unicode.IsLetter(rune(last)) || unicode.IsDigit(rune(last)) {
				b.WriteByte(' ')
			}
		}
		b.WriteString(t.val)
		p.next()
	}
	if b.Len() == 0 {
		p.fail("expected type")
	}
	return b.String()
}

func (p *parser) iff() Expr {
	x := p.implies()
	for p.isOp("<==>") {
		p.next()
		y := p.implies()
		x = &EBinary{"<==>", x, y}
	}
	return x
}

func (p *parser) implies() Expr {
	x := p.or()
	if p.isOp("==>") {
		p.next()
		// right assoc; allow quantifier on the right
		var y Expr
		if t := p.peek(); t.kind == "ident" && (t.val == "forall" || t.val == "exists" || t.val == "let") {
			y = p.expr()
		} else {
			y = p.implies()
		}
		return &EBinary{"==>", x, y}
	}
	return x
}

func (p *parser) or() Expr {
	x := p.and()
	for p.isOp("||") {
		p.next()
		y := p.and()
		x = &EBinary{"||", x, y}
	}
	return x
}

func (p *parser) and() Expr {
	x := p.cmp()
	for p.isOp("&&") {
		p.next()
		var y Expr
		if t := p.peek(); t.kind == "ident" && (t.val == "forall" || t.val == "exists") {
			y = p.expr()
		} else {
			y = p.cmp()
		}
		x = &EBinary{"&&", x, y}
	}
	return x
}

func (p *parser) cmp() Expr {
	x := p.add()
	for {
		t := p.peek()
		if t.kind == "op" && (t.val == "==" || t.val == "!=" || t.val == "<" || t.val == "<=" || t.val == ">" || t.val == ">=") {
			p.next()
			y := p.add()
			x = &EBinary{t.val, x, y}
			continue
		}
		if t.kind == "ident" && t.val == "in" {
			p.next()
			y := p.add()
			x = &EBinary{"in", x, y}
			continue
		}
		return x
	}
}

func (p *parser) add() Expr {
	x := p.mul()
	for p.isOp("+") || p.isOp("-") {
		o := p.next().val
		y := p.mul()
		x = &EBinary{o, x, y}
	}
	return x
}

func (p *parser) mul() Expr {
	x := p.unary()
	for p.isOp("*") || p.isOp("/") || p.isOp("%") {
		o := p.next().val
		y := p.unary()
		x = &EBinary{o, x, y}
	}
	return x
}

func (p *parser) unary() Expr {
	if t := p.peek(); t.kind == "ident" && (t.val == "forall" || t.val == "exists" || t.val == "let") {
		return p.expr()
	}
	if p.isOp("!") || p.isOp("-") || p.isOp("*") || p.isOp("&") {
		o := p.next().val
		x := p.unary()
		return &EUnary{o, x}
	}
	return p.postfix()
}

func (p *parser) postfix() Expr {
	x := p.primary()
	for {
		switch {
		case p.isOp("."):
			p.next()
			n := p.next()
			if n.kind != "ident" {
				p.fail("expected field name after '.'")
			}
			x = &ESel{x, n.val}
		case p.isOp("["):
			p.next()
			var lo, hi Expr
			if p.isOp(":") {
				p.next()
				if !p.isOp("]") {
					hi = p.expr()
				}
				if err := p.expectOp("]"); err != nil {
					p.fail("%v", err)
				}
				x = &ESlice{x, nil, hi}
				continue
			}
			lo = p.expr()
			if p.isOp(":") {
				p.next()
				if !p.isOp("]") {
					hi = p.expr()
				}
				if err := p.expectOp("]"); err != nil {
					p.fail("%v", err)
				}
				x = &ESlice{x, lo, hi}
				continue
			}
			if err := p.expectOp("]"); err != nil {
				p.fail("%v", err)
			}
			x = &EIndex{x, lo}
		case p.isOp("("):
			p.next()
			var args []Expr
			for !p.isOp(")") {
				args = append(args, p.expr())
				if p.isOp(",") {
					p.next()
				} else {
					break
				}
			}
			if err := p.expectOp(")"); err != nil {
				p.fail("%v", err)
			}
			if id, ok := x.(*EIdent); ok && (id.Name == "old" || id.Name == "pre" || id.Name == "head") && len(args) == 1 {
				lab := ""
				if id.Name == "pre" {
					lab = "loop"
				}
				if id.Name == "head" {
					lab = "head"
				}
				x = &EOld{args[0], lab}
			} else {
				x = &ECall{x, args}
			}
		default:
			return x
		}
	}
}

func (p *parser) primary() Expr {
	t := p.next()
	switch t.kind {
	case "int":
		return &EInt{t.val}
	case "str":
		return &EStr{t.val}
	case "ident":
		switch t.val {
		case "true":
			return &EBool{true}
		case "false":
			return &EBool{false}
		case "nil":
			return &ENil{}
		}
		return &EIdent{t.val}
	case "op":
		if t.val == "(" {
			// parenthesised expr, or a parenthesised type like (*T) used as conversion: treat as expr
			e := p.expr()
			if err := p.expectOp(")"); err != nil {
				p.fail("%v", err)
			}
			return e
		}
	}
	p.fail("unexpected stok %q", t.val)
	return nil
}

// ---- Contract file structure ----

type LoopSpec struct {
	Invariants []Clause
	// EndAsserts: 'loop N end assert [l] e' - checked at the end of every iteration (at the back edge), where the
	// variables declared in the body are in scope and head(x) is x's value at the start of the iteration
	EndAsserts []Clause
	// Complete: 'loop N complete [l]' - no path leaves the loop except through its header's exit test
	Complete *Clause
}

type Clause struct {
	Text string
	E    Expr
	Name string // optional label [name]
	File string
	Line int
	// Assumed: 'ensures assumed ...' - the clause is given to callers but not proved of the body (listed as an assumption)
	Assumed bool
}

type ParamSpec struct { // contract for a function-typed parameter
	Name string
	Text string
}

type Contract struct {
	LockOnly bool // only the lock discipline of this function is verified
	// Concurrent: the function runs concurrently with the event handlers (a status fetcher): every field it reads that is
	// written anywhere outside constructors must be guarded by a mutex (audit obligation concurrent.read)
	Concurrent bool
	Abstract bool // unmodelled instructions / callees are abstracted by havoc
	Binds    []BindDecl
	ReadonlyWhen []Clause
	// Params: 'params a, b' on a closure contract: the closure's parameter names. When the closure numbered in the
	// contract's name no longer has them (a closure was added or removed before it) the sibling that has them is meant.
	Params []string
	// Exits: 'exit assert [l] e' - checked at every return like an ensures clause, but not part of the interface: it may
	// name the function's local variables (in scope at that return); callers do not see it
	Exits []Clause
	FuncName  string // as written: e.g. poolFor, (*Allocator).Assign, or fully qualified for stubs
	Pkg       string // package path
	Requires  []Clause
	Ensures   []Clause
	Modifies  []string // array-level items (textual), "nothing" omitted
	ModAll    bool     // modifies *
	Loops     map[int]*LoopSpec
	LoopBinds map[int]string // 'loop N binds x': ordinal N names the source loop that declares x (not the N-th loop)
	Pure      bool
	Trusted   bool // contract assumed, body not verified
	Overflow  bool // check overflow obligations
	Inline    bool
	NoPanic   bool
	Asserts   map[string][]Clause // anchored asserts (unused yet)
	File      string
	Line      int
	Used      bool
	CallWith  map[string]string // call-site directives (e.g. sort.Slice relation)
	Havocs    []string          // names of heap arrays a trusted function may change
	Opaque    bool
	Reads     []string
	ResultNames []string
	ModDeclared bool
	Allocates   bool
	PureParams  []string
	Denotes     Expr // closures: the spec-level function value this closure equals
	DenotesText string
	Anchored    []AnchoredAssert
}

// AnchoredAssert: an intermediate assertion proved (then assumed) before/after a call of Callee.
type AnchoredAssert struct {
	Before bool
	Callee string
	C      Clause
	Lemma  string // apply <lemma> before|after <callee>: the (separately proved) lemma is assumed at that point
	Inst   []Expr // optional instantiation of the lemma's leading universally quantified variables
}

type PredDef struct {
	Name   string
	Params []QVar
	Body   Expr
	Text   string
	Pkg    string
	IsFun  bool
	Opaque bool
	ResTy  string
	File   string
	Line   int
}

type UFunDecl struct {
	Name   string
	Params []string // type texts
	Res    string
	Pkg    string
}

type AxiomDef struct {
	Name string
	E    Expr
	Text string
	Pkg  string
	File string
	Line int
}

type LemmaDef struct {
	Name  string
	E     Expr
	Text  string
	Pkg   string
	File  string
	Line  int
	Props []string
}

type BindDecl struct {
	Field  string // controllers.ServiceReconciler.Handler (last two components matter: Type.field)
	Method string // (*Listener).ServiceHandler
	File   string
	Line   int
}

type GuardedBy struct {
	Mutex  string   // e.g. Allocator.countersMutex
	Fields []string // e.g. Allocator.poolToCounters
	Pkg    string
}

type SpecFile struct {
	Pkg       string
	Contracts []*Contract
	Preds     []*PredDef
	UFuns     []*UFunDecl
	Axioms    []*AxiomDef
	Lemmas    []*LemmaDef
	Immutable []string
	Guarded   []*GuardedBy
}

var directiveWords = map[string]bool{
	"func": true, "requires": true, "ensures": true, "modifies": true, "loop": true, "pred": true, "fun": true,
	"ufun": true, "axiom": true, "lemma": true, "pure": true, "check": true, "immutable": true, "trusted": true,
	"inline": true, "package": true, "allocates": true, "pureparam": true, "denotes": true, "assert": true, "guarded_by": true, "havocs": true, "opaque": true, "reads": true, "call": true, "readonly": true, "lockonly": true, "abstract": true, "binds": true, "apply": true, "exit": true, "params": true, "concurrent": true,
}

// parseSpecText parses the joined text of //@ lines. lines carries (text,lineNo).
func parseSpecLines(file string, pkg string, lines []specLine) (*SpecFile, error) {
	sf := &SpecFile{Pkg: pkg}
	// group into directives
	type dir struct {
		word string
		text string
		line int
	}
	var dirs []dir
	for _, l := range lines {
		t := strings.TrimSpace(l.text)
		if t == "" {
			continue
		}
		// strip trailing // comments (not inside strings)
		t = stripComment(t)
		if t == "" {
			continue
		}
		w := t
		if i := strings.IndexAny(t, " \t"); i >= 0 {
			w = t[:i]
		}
		if directiveWords[w] {
			dirs = append(dirs, dir{w, strings.TrimSpace(t[len(w):]), l.line})
		} else {
			if len(dirs) == 0 {
				return nil, fmt.Errorf("%s:%d: continuation line without directive", file, l.line)
			}
			dirs[len(dirs)-1].text += " " + t
		}
	}
	var cur *Contract
	for _, d := range dirs {
		errf := func(f string, a ...interface{}) error {
			return fmt.Errorf("%s:%d: %s", file, d.line, fmt.Sprintf(f, a...))
		}
		switch d.word {
		case "package":
			sf.Pkg = d.text
			pkg = d.text
			cur = nil
		case "func":
			cur = &Contract{FuncName: d.text, Pkg: pkg, Loops: map[int]*LoopSpec{}, LoopBinds: map[int]string{}, File: file, Line: d.line, CallWith: map[string]string{}}
			sf.Contracts = append(sf.Contracts, cur)
		case "requires", "ensures":
			if cur == nil {
				return nil, errf("%s outside func", d.word)
			}
			dtext, assumed := d.text, false
			if d.word == "ensures" && strings.HasPrefix(dtext, "assumed ") {
				dtext, assumed = strings.TrimSpace(dtext[len("assumed "):]), true
			}
			name, text := splitLabel(dtext)
			e, err := ParseExpr(text)
			if err != nil {
				return nil, errf("%v", err)
			}
			c := Clause{Text: text, E: e, Name: name, File: file, Line: d.line, Assumed: assumed}
			if d.word == "requires" {
				cur.Requires = append(cur.Requires, c)
			} else {
				cur.Ensures = append(cur.Ensures, c)
			}
		case "modifies":
			if cur == nil {
				return nil, errf("modifies outside func")
			}
			cur.ModDeclared = true
			for _, it := range strings.Split(d.text, ",") {
				it = strings.TrimSpace(it)
				if it == "" || it == "nothing" {
					continue
				}
				if it == "*" {
					cur.ModAll = true
					continue
				}
				cur.Modifies = append(cur.Modifies, it)
			}
		case "loop":
			if cur == nil {
				return nil, errf("loop outside func")
			}
			var n int
			rest := d.text
			if _, err := fmt.Sscanf(rest, "%d", &n); err != nil {
				return nil, errf("loop: expected ordinal")
			}
			rest = strings.TrimSpace(strings.TrimLeft(rest, "0123456789"))
			if strings.HasPrefix(rest, "binds ") {
				cur.LoopBinds[n] = strings.TrimSpace(rest[len("binds "):])
				continue
			}
			if strings.HasPrefix(rest, "complete") {
				// loop N complete [l]: the loop is left only through its own exit test (the range is exhausted / the
				// condition fails): no break, goto or return leaves it early - "every element is visited"
				name, _ := splitLabel(strings.TrimSpace(rest[len("complete"):]))
				ls := cur.Loops[n]
				if ls == nil {
					ls = &LoopSpec{}
					cur.Loops[n] = ls
				}
				ls.Complete = &Clause{Text: "the loop is left only when its range is exhausted", Name: name, File: file, Line: d.line}
				continue
			}
			if strings.HasPrefix(rest, "end assert") {
				name, text := splitLabel(strings.TrimSpace(rest[len("end assert"):]))
				e, err := ParseExpr(text)
				if err != nil {
					return nil, errf("%v", err)
				}
				ls := cur.Loops[n]
				if ls == nil {
					ls = &LoopSpec{}
					cur.Loops[n] = ls
				}
				ls.EndAsserts = append(ls.EndAsserts, Clause{Text: text, E: e, Name: name, File: file, Line: d.line})
				continue
			}
			if !strings.HasPrefix(rest, "invariant") {
				return nil, errf("loop: expected 'invariant'")
			}
			rest = strings.TrimSpace(rest[len("invariant"):])
			name, text := splitLabel(rest)
			e, err := ParseExpr(text)
			if err != nil {
				return nil, errf("%v", err)
			}
			ls := cur.Loops[n]
			if ls == nil {
				ls = &LoopSpec{}
				cur.Loops[n] = ls
			}
			ls.Invariants = append(ls.Invariants, Clause{Text: text, E: e, Name: name, File: file, Line: d.line})
		case "pure":
			if cur == nil {
				return nil, errf("pure outside func")
			}
			cur.Pure = true
		case "trusted":
			if cur == nil {
				return nil, errf("trusted outside func")
			}
			cur.Trusted = true
		case "opaque":
			if strings.HasPrefix(d.text, "pred ") {
				sub, err := parseSpecLines(file, pkg, []specLine{{text: d.text, line: d.line}})
				if err != nil {
					return nil, err
				}
				for _, p := range sub.Preds {
					p.Opaque = true
					sf.Preds = append(sf.Preds, p)
				}
				cur = nil
				continue
			}
			if cur == nil {
				return nil, errf("opaque outside func")
			}
			cur.Opaque = true
		case "inline":
			if cur == nil {
				return nil, errf("inline outside func")
			}
			cur.Inline = true
		case "assert":
			// assert before|after <callee>: <expr>
			if cur == nil {
				return nil, errf("assert outside func")
			}
			f := strings.Fields(d.text)
			if len(f) < 3 || (f[0] != "before" && f[0] != "after") {
				return nil, errf("assert: expected 'before|after <callee>: expr'")
			}
			ci := strings.Index(d.text, ":")
			if ci < 0 {
				return nil, errf("assert: expected ':'")
			}
			callee := strings.TrimSpace(d.text[len(f[0]):ci])
			name, text := splitLabel(strings.TrimSpace(d.text[ci+1:]))
			e, err := ParseExpr(text)
			if err != nil {
				return nil, errf("%v", err)
			}
			cur.Anchored = append(cur.Anchored, AnchoredAssert{Before: f[0] == "before", Callee: callee, C: Clause{Text: text, E: e, Name: name, File: file, Line: d.line}})
		case "apply":
			// apply <lemma> before|after <callee>[#n]
			if cur == nil {
				return nil, errf("apply outside func")
			}
			// optional instantiation: apply <lemma>(e1, e2) before ...: the lemma's leading variables are e1, e2
			txt := strings.TrimSpace(d.text)
			var inst []Expr
			if lp := strings.Index(txt, "("); lp > 0 && !strings.ContainsAny(txt[:lp], " \t") {
				depth, rp := 0, -1
				for i := lp; i < len(txt); i++ {
					if txt[i] == '(' {
						depth++
					} else if txt[i] == ')' {
						depth--
						if depth == 0 {
							rp = i
							break
						}
					}
				}
				if rp < 0 {
					return nil, errf("apply: unbalanced parentheses")
				}
				ce, err := ParseExpr("f" + txt[lp:rp+1])
				if err != nil {
					return nil, errf("apply: %v", err)
				}
				if c, ok := ce.(*ECall); ok {
					inst = c.Args
				}
				txt = txt[:lp] + txt[rp+1:]
			}
			f := strings.Fields(txt)
			if len(f) != 3 || (f[1] != "before" && f[1] != "after") {
				return nil, errf("apply: expected '<lemma>[(args)] before|after <callee>'")
			}
			cur.Anchored = append(cur.Anchored, AnchoredAssert{Before: f[1] == "before", Callee: f[2], Lemma: f[0], Inst: inst, C: Clause{Text: "lemma " + f[0], File: file, Line: d.line}})
		case "denotes":
			if cur == nil {
				return nil, errf("denotes outside func")
			}
			e, err := ParseExpr(d.text)
			if err != nil {
				return nil, errf("%v", err)
			}
			cur.Denotes = e
			cur.DenotesText = d.text
			cur.Pure = true
		case "concurrent":
			if cur == nil {
				return nil, errf("concurrent outside func")
			}
			cur.Concurrent = true
		case "lockonly":
			if cur == nil {
				return nil, errf("lockonly outside func")
			}
			cur.LockOnly = true
			cur.Abstract = true
		case "binds":
			// binds T.field to <method>: every store to field `field` of a T in this function stores the method value <method>
			if cur == nil {
				return nil, errf("binds outside func")
			}
			f := strings.Fields(d.text)
			if len(f) != 3 || f[1] != "to" {
				return nil, errf("binds: expected 'binds T.field to (*R).Method'")
			}
			cur.Binds = append(cur.Binds, BindDecl{Field: f[0], Method: f[2], File: file, Line: d.line})
		case "abstract":
			// abstract: instructions and callees outside the modelled subset are abstracted (arbitrary result, arbitrary heap
			// afterwards, lock state kept); generated safety obligations are not claimed for such a function
			if cur == nil {
				return nil, errf("abstract outside func")
			}
			cur.Abstract = true
		case "params":
			if cur == nil {
				return nil, errf("params outside func")
			}
			for _, it := range strings.Split(d.text, ",") {
				if it = strings.TrimSpace(it); it != "" {
					cur.Params = append(cur.Params, it)
				}
			}
		case "exit":
			if cur == nil {
				return nil, errf("exit outside func")
			}
			tx := strings.TrimSpace(d.text)
			if !strings.HasPrefix(tx, "assert ") {
				return nil, errf("exit: expected 'exit assert [label] <expr>'")
			}
			name, text := splitLabel(strings.TrimSpace(tx[len("assert "):]))
			e, err := ParseExpr(text)
			if err != nil {
				return nil, errf("%v", err)
			}
			cur.Exits = append(cur.Exits, Clause{Text: text, E: e, Name: name, File: file, Line: d.line})
		case "readonly":
			// readonly when <expr>: when expr holds on return, no cell of an object allocated before the call was written
			if cur == nil {
				return nil, errf("readonly outside func")
			}
			tx := strings.TrimSpace(d.text)
			if !strings.HasPrefix(tx, "when ") {
				return nil, errf("readonly: expected 'readonly when <expr>'")
			}
			tx = strings.TrimSpace(tx[5:])
			e, err := ParseExpr(tx)
			if err != nil {
				return nil, errf("%v", err)
			}
			cur.ReadonlyWhen = append(cur.ReadonlyWhen, Clause{Text: tx, E: e, File: file, Line: d.line})
		case "allocates":
			if cur == nil {
				return nil, errf("allocates outside func")
			}
			cur.Allocates = true
		case "pureparam":
			if cur == nil {
				return nil, errf("pureparam outside func")
			}
			cur.PureParams = append(cur.PureParams, strings.Fields(d.text)...)
		case "check":
			if cur == nil {
				return nil, errf("check outside func")
			}
			if strings.Contains(d.text, "overflow") {
				cur.Overflow = true
			}
		case "call":
			if cur == nil {
				return nil, errf("call outside func")
			}
			// call <callee>#<n> <key> <text>
			f := strings.Fields(d.text)
			if len(f) < 2 {
				return nil, errf("call: expected '<callee>#n <directive...>'")
			}
			cur.CallWith[f[0]] = strings.TrimSpace(d.text[len(f[0]):])
		case "havocs":
			if cur == nil {
				return nil, errf("havocs outside func")
			}
			for _, it := range strings.Split(d.text, ",") {
				if it = strings.TrimSpace(it); it != "" {
					cur.Havocs = append(cur.Havocs, it)
				}
			}
		case "reads":
			if cur == nil {
				return nil, errf("reads outside func")
			}
			for _, it := range strings.Split(d.text, ",") {
				if it = strings.TrimSpace(it); it != "" {
					cur.Reads = append(cur.Reads, it)
				}
			}
		case "pred", "fun":
			// pred Name(a T, b U) := body     fun Name(a T) R := body
			i := strings.Index(d.text, ":=")
			if i < 0 {
				return nil, errf("%s: expected ':='", d.word)
			}
			head, body := strings.TrimSpace(d.text[:i]), strings.TrimSpace(d.text[i+2:])
			lp := strings.Index(head, "(")
			rp := strings.LastIndex(head, ")")
			if lp < 0 || rp < lp {
				return nil, errf("%s: malformed header", d.word)
			}
			pd := &PredDef{Name: strings.TrimSpace(head[:lp]), Text: body, Pkg: pkg, IsFun: d.word == "fun", File: file, Line: d.line}
			pd.ResTy = strings.TrimSpace(head[rp+1:])
			ptoks, err := lex(head[lp+1 : rp])
			if err != nil {
				return nil, errf("%v", err)
			}
			if len(ptoks) > 1 {
				pp := &parser{toks: ptoks}
				func() {
					defer func() {
						if r := recover(); r != nil {
							err = fmt.Errorf("%v", r)
						}
					}()
					pd.Params = pp.qvars()
				}()
				if err != nil {
					return nil, errf("%v", err)
				}
			}
			e, err := ParseExpr(body)
			if err != nil {
				return nil, errf("%v", err)
			}
			pd.Body = e
			sf.Preds = append(sf.Preds, pd)
			cur = nil
		case "ufun":
			// ufun name(T1, T2) R
			lp := strings.Index(d.text, "(")
			rp := matchParen(d.text, lp)
			if lp < 0 || rp < lp {
				return nil, errf("ufun: malformed")
			}
			u := &UFunDecl{Name: strings.TrimSpace(d.text[:lp]), Res: strings.TrimSpace(d.text[rp+1:]), Pkg: pkg}
			for _, a := range splitTopLevel(d.text[lp+1:rp], ',') {
				if a = strings.TrimSpace(a); a != "" {
					u.Params = append(u.Params, a)
				}
			}
			sf.UFuns = append(sf.UFuns, u)
			cur = nil
		case "axiom", "lemma":
			i := strings.Index(d.text, ":")
			if i < 0 {
				return nil, errf("%s: expected 'name: formula'", d.word)
			}
			name := strings.TrimSpace(d.text[:i])
			// name must be a simple identifier; otherwise treat the whole as the formula
			text := strings.TrimSpace(d.text[i+1:])
			if strings.ContainsAny(name, " ()") {
				name = fmt.Sprintf("%s%d", d.word, d.line)
				text = d.text
			}
			e, err := ParseExpr(text)
			if err != nil {
				return nil, errf("%v", err)
			}
			if d.word == "axiom" {
				sf.Axioms = append(sf.Axioms, &AxiomDef{Name: name, E: e, Text: text, Pkg: pkg, File: file, Line: d.line})
			} else {
				sf.Lemmas = append(sf.Lemmas, &LemmaDef{Name: name, E: e, Text: text, Pkg: pkg, File: file, Line: d.line})
			}
			cur = nil
		case "immutable":
			for _, it := range strings.Split(d.text, ",") {
				if it = strings.TrimSpace(it); it != "" {
					sf.Immutable = append(sf.Immutable, it)
				}
			}
		case "guarded_by":
			// guarded_by T.mu : T.f1, T.f2
			i := strings.Index(d.text, ":")
			if i < 0 {
				return nil, errf("guarded_by: expected ':'")
			}
			g := &GuardedBy{Mutex: strings.TrimSpace(d.text[:i]), Pkg: pkg}
			for _, it := range strings.Split(d.text[i+1:], ",") {
				if it = strings.TrimSpace(it); it != "" {
					g.Fields = append(g.Fields, it)
				}
			}
			sf.Guarded = append(sf.Guarded, g)
		}
	}
	return sf, nil
}

type specLine struct {
	text string
	line int
}

func stripComment(t string) string {
	inStr := false
	for i := 0; i+1 < len(t); i++ {
		if t[i] == '"' && (i == 0 || t[i-1] != '\\') {
			inStr = !inStr
		}
		if !inStr && t[i] == '/' && t[i+1] == '/' {
			return strings.TrimSpace(t[:i])
		}
	}
	return t
}

// splitLabel extracts an optional leading "[name]" label.
func splitLabel(t string) (string, string) {
	t = strings.TrimSpace(t)
	if strings.HasPrefix(t, "[") {
		if i := strings.Index(t, "]"); i > 0 {
			lab := t[1:i]
			ok := lab != ""
			for _, r := range lab {
				if !(unicode.IsLetter(r) || unicode.IsDigit(r) || r == '_' || r == '-' || r == '.') {
					ok = false
				}
			}
			if ok {
				return lab, strings.TrimSpace(t[i+1:])
			}
		}
	}
	return "", t
}

func splitTopLevel(s string, sep byte) []string {
	var out []string
	depth := 0
	last := 0
	for i := 0; i < len(s); i++ {
		switch s[i] {
		case '(', '[', '{':
			depth++
		case ')', ']', '}':
			depth--
		default:
			if s[i] == sep && depth == 0 {
				out = append(out, s[last:i])
				last = i + 1
			}
		}
	}
	out = append(out, s[last:])
	return out
}

// readSpecFile extracts //@ lines from a file's text.
func extractSpecLines(src string) []specLine {
	var out []specLine
	for i, l := range strings.Split(src, "\n") {
		t := strings.TrimSpace(l)
		if strings.HasPrefix(t, "//@") {
			out = append(out, specLine{t[3:], i + 1})
		}
	}
	return out
}

func matchParen(s string, lp int) int {
	if lp < 0 {
		return -1
	}
	depth := 0
	for i := lp; i < len(s); i++ {
		switch s[i] {
		case '(':
			depth++
		case ')':
			depth--
			if depth == 0 {
				return i
			}
		}
	}
	return -1
}
