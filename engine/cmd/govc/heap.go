package main

// Symbolic state: locals, heap arrays, allocation counter, map-iteration ghosts.

import (
	"fmt"
	"go/types"
	"sort"
	"strings"

	"golang.org/x/tools/go/ssa"
)

type State struct {
	locals map[*ssa.Alloc]*Term
	heap   map[string]*Term
	iters  map[*ssa.Range]*Term // visited set of a map iteration
	ghost  map[string]*Term     // misc ghost variables ($next, held(...), ...)
	epoch  int                  // >0 after a whole-heap havoc: arrays not in `heap` denote name@e<epoch>, not the entry version
}

func newState() *State {
	return &State{locals: map[*ssa.Alloc]*Term{}, heap: map[string]*Term{}, iters: map[*ssa.Range]*Term{}, ghost: map[string]*Term{}}
}

func (s *State) clone() *State {
	n := newState()
	for k, v := range s.locals {
		n.locals[k] = v
	}
	for k, v := range s.heap {
		n.heap[k] = v
	}
	for k, v := range s.iters {
		n.iters[k] = v
	}
	for k, v := range s.ghost {
		n.ghost[k] = v
	}
	n.epoch = s.epoch
	return n
}

// HeapCtx gives access to declarations for heap arrays.
type HeapCtx struct {
	namedC map[string]*Term // names of large provenance terms
	ufunWF map[string]bool // slice-valued spec functions whose well-formedness axiom was emitted
	w        *World
	d        *Decls
	arrSorts map[string]*Sort // heap array name -> sort (everything ever touched)
	seen0    map[string]bool
	opaque   map[string]string // opaque predicate bodies -> symbol
	mapZero  map[string]*Term  // MV array name -> zero value of the map's element type
	seenRep  map[string]bool
	accessLog map[string]string // while translating an opaque body: heap array name -> version term read
	freshFrom map[string]freshProv // array version -> the version it was havocked from with a fresh-only frame
	opaqueSyms map[string][]*opaqueSym // pred key -> symbols created so far
	emit     func(t *Term) // adds an unconditional assumption
	epochCtr int
}

// havocAll: nothing is known about the heap any more (lock-discipline-only abstraction of unknown callees and loops);
// the lock state $held and local variables are kept.
func (h *HeapCtx) havocAll(st *State) {
	st.heap = map[string]*Term{}
	h.epochCtr++
	st.epoch = h.epochCtr
}

type freshProv struct {
	old  *Term
	next *Term // allocation counter before the call / loop: cells of objects below it are unchanged
	cond *Term // nil, or the condition under which this hop is fresh-only (readonly when ...)
}

type opaqueSym struct {
	sym    string
	arrays map[string]string
	sorts  []*Sort
}

// noteFreshFrame records that array version `after` equals `before` on all cells of objects allocated below next.
func (h *HeapCtx) noteFreshFrame(before, after, next *Term) {
	if h.freshFrom == nil {
		h.freshFrom = map[string]freshProv{}
	}
	h.freshFrom[after.S] = freshProv{before, next, nil}
}

// noteFreshFrameCond: as noteFreshFrame, but the frame holds only when cond does.
func (h *HeapCtx) noteFreshFrameCond(before, after, next, cond *Term) {
	if h.freshFrom == nil {
		h.freshFrom = map[string]freshProv{}
	}
	h.freshFrom[after.S] = freshProv{before, next, cond}
}

// wfArr: every reference stored in heap array a is nil or allocated (id < nx); slices are well-formed.
func wfArr(a *Term, nx *Term) *Term {
	if a.Sort.K != SPtr || a.Sort.V == nil {
		return nil
	}
	p := &Term{"wp", SPtr}
	switch {
	case a.Sort.V == SPtr:
		v := Select(a, p)
		return Forall([]Bound{{"wp", SPtr}}, Or(IsNil(v), Lt(PObjID(v), nx)), []*Term{v})
	case a.Sort.V == SSlc:
		v := Select(a, p)
		return Forall([]Bound{{"wp", SPtr}}, And(Or(IsNil(SlcArr(v)), Lt(PObjID(SlcArr(v)), nx)),
			Le(IntLit(0), SlcLen(v)), Le(SlcLen(v), SlcCap(v)), Le(IntLit(0), SlcOff(v)),
			Implies(IsNil(SlcArr(v)), Eq(SlcCap(v), IntLit(0)))), []*Term{v})
	case a.Sort.V.IsArray() && a.Sort.V.V == SPtr:
		k := &Term{"wk", a.Sort.V.K}
		v := Select(Select(a, p), k)
		return Forall([]Bound{{"wp", SPtr}, {"wk", a.Sort.V.K}}, Or(IsNil(v), Lt(PObjID(v), nx)), []*Term{v})
	case a.Sort.V.IsArray() && a.Sort.V.V == SSlc:
		k := &Term{"wk", a.Sort.V.K}
		v := Select(Select(a, p), k)
		return Forall([]Bound{{"wp", SPtr}, {"wk", a.Sort.V.K}}, And(Or(IsNil(SlcArr(v)), Lt(PObjID(SlcArr(v)), nx)),
			Le(IntLit(0), SlcLen(v)), Le(SlcLen(v), SlcCap(v)), Le(IntLit(0), SlcOff(v)),
			Implies(IsNil(SlcArr(v)), Eq(SlcCap(v), IntLit(0)))), []*Term{v})
	}
	return nil
}

// noteHavoc records well-formedness of a freshly introduced heap array constant
func (h *HeapCtx) noteHavoc(a *Term, nx *Term) {
	if h.emit == nil {
		return
	}
	if t := wfArr(a, nx); t != nil {
		h.emit(t)
	}
}

func (h *HeapCtx) arr(st *State, name string, sort *Sort) *Term {
	if h.arrSorts[name] == nil {
		h.arrSorts[name] = sort
	}
	_ = st
	if t, ok := st.heap[name]; ok {
		if h.accessLog != nil {
			h.accessLog[name] = t.S
		}
		return t
	}
	if st.epoch > 0 {
		c := h.d.Const(fmt.Sprintf("%s@e%d", name, st.epoch), sort)
		if h.accessLog != nil {
			h.accessLog[name] = c.S
		}
		return c
	}
	if h.accessLog != nil {
		h.accessLog[name] = name + "@0"
	}
	c := h.d.Const(name+"@0", sort)
	if h.seen0 == nil {
		h.seen0 = map[string]bool{}
	}
	if !h.seen0[name] {
		h.seen0[name] = true
		h.noteHavoc(c, h.d.Const("$next@0", SInt))
		h.noteMapArr(nil, name)
	}
	return c
}

// noteMapArr emits the map representation invariant for the current versions (in st; entry versions if
// st is nil) of the arrays belonging to the same map type as array `name`.
func (h *HeapCtx) noteMapArr(st *State, name string) {
	if h.emit == nil || len(name) < 3 {
		return
	}
	pre := name[:3]
	if pre != "MD_" && pre != "MV_" && pre != "MC_" {
		return
	}
	base := name[3:]
	get := func(n string) *Term {
		srt := h.arrSorts[n]
		if srt == nil {
			return nil
		}
		if st != nil {
			if t, ok := st.heap[n]; ok {
				return t
			}
		}
		if h.seen0[n] {
			return &Term{n + "@0", srt}
		}
		return nil
	}
	dom, val, card := get("MD_"+base), get("MV_"+base), get("MC_"+base)
	if dom == nil {
		// the domain array is needed for the pair invariant; it will be emitted when it appears
		if card != nil {
			h.emit(Eq(Select(card, TNil), IntLit(0)))
		}
		return
	}
	key := "rep|" + dom.S + "|"
	if val != nil {
		key += val.S
	}
	key += "|"
	if card != nil {
		key += card.S
	}
	if h.seenRep == nil {
		h.seenRep = map[string]bool{}
	}
	if h.seenRep[key] {
		return
	}
	h.seenRep[key] = true
	h.emit(h.mapRepInv(dom, val, card, h.mapZero["MV_"+base]))
}

func (h *HeapCtx) setArr(st *State, name string, t *Term) {
	if h.arrSorts[name] == nil {
		h.arrSorts[name] = t.Sort
	}
	st.heap[name] = t
}

func (h *HeapCtx) ghostVar(st *State, name string, sort *Sort) *Term {
	if t, ok := st.ghost[name]; ok {
		return t
	}
	return h.d.Const(sanitize(name)+"@0", sort)
}

func (h *HeapCtx) nextID(st *State) *Term { return h.ghostVar(st, "$next", SInt) }

// isStructT reports whether values of t are modelled as datatype with per-field heap arrays.
func isStructT(t types.Type) bool {
	_, ok := t.Underlying().(*types.Struct)
	return ok
}

func isArrayT(t types.Type) bool {
	_, ok := t.Underlying().(*types.Array)
	return ok
}

// readAt reads a value of Go type ty stored at address p.
func (h *HeapCtx) readAt(st *State, p *Term, ty types.Type) *Term {
	if isStructT(ty) {
		si := h.w.structInfo(ty)
		srt := h.w.sortOf(h.d, ty)
		var args []*Term
		for _, i := range si.Fields {
			args = append(args, h.readField(st, p, ty, i))
		}
		return mk(srt, "mk_"+si.Name, args...)
	}
	if at, ok := ty.Underlying().(*types.Array); ok {
		if at.Len() > 64 {
			panic(unsupported("array in memory longer than 64"))
		}
		srt := h.w.sortOf(h.d, ty)
		v := ConstArray(srt, h.w.zero(h.d, at.Elem()))
		for i := int64(0); i < at.Len(); i++ {
			v = Store(v, IntLit(i), h.readAt(st, PElem(p, IntLit(i)), at.Elem()))
		}
		return v
	}
	srt := h.w.sortOf(h.d, ty)
	a := h.arr(st, memArrName(srt), SArray(SPtr, srt))
	return Select(a, p)
}

// readField reads field idx of the struct of type sty at base address p.
func (h *HeapCtx) readField(st *State, p *Term, sty types.Type, idx int) *Term {
	si := h.w.structInfo(sty)
	if !si.has(idx) {
		panic(unsupported(fmt.Sprintf("field %s.%s not in relevance set", si.Key, si.T.Field(idx).Name())))
	}
	fty := si.T.Field(idx).Type()
	if isStructT(fty) || isArrayT(fty) {
		return h.readAt(st, PFld(p, idx), fty)
	}
	srt := h.w.sortOf(h.d, fty)
	a := h.arr(st, h.w.fieldArrName(sty, idx), SArray(SPtr, srt))
	return Select(a, p)
}

// writeAt stores value v of type ty at address p. Returns names of arrays written.
func (h *HeapCtx) writeAt(st *State, p *Term, ty types.Type, v *Term) {
	if isStructT(ty) {
		si := h.w.structInfo(ty)
		for _, i := range si.Fields {
			fv := mk(h.w.sortOf(h.d, si.T.Field(i).Type()), si.sel(i), v)
			h.writeField(st, p, ty, i, fv)
		}
		return
	}
	if at, ok := ty.Underlying().(*types.Array); ok {
		if at.Len() > 64 {
			panic(unsupported("array in memory longer than 64"))
		}
		for i := int64(0); i < at.Len(); i++ {
			h.writeAt(st, PElem(p, IntLit(i)), at.Elem(), Select(v, IntLit(i)))
		}
		return
	}
	srt := h.w.sortOf(h.d, ty)
	n := memArrName(srt)
	a := h.arr(st, n, SArray(SPtr, srt))
	h.setArr(st, n, Store(a, p, v))
}

func (h *HeapCtx) writeField(st *State, p *Term, sty types.Type, idx int, v *Term) {
	si := h.w.structInfo(sty)
	if !si.has(idx) {
		return // irrelevant field: never read
	}
	fty := si.T.Field(idx).Type()
	if isStructT(fty) || isArrayT(fty) {
		h.writeAt(st, PFld(p, idx), fty, v)
		return
	}
	srt := h.w.sortOf(h.d, fty)
	n := h.w.fieldArrName(sty, idx)
	a := h.arr(st, n, SArray(SPtr, srt))
	h.setArr(st, n, Store(a, p, v))
}

// arraysOfType lists the heap arrays that hold a value of type ty in memory (for modifies / havoc).
func (h *HeapCtx) arraysOfType(ty types.Type, out map[string]*Sort) {
	if isStructT(ty) {
		si := h.w.structInfo(ty)
		for _, i := range si.Fields {
			fty := si.T.Field(i).Type()
			if isStructT(fty) || isArrayT(fty) {
				h.arraysOfType(fty, out)
			} else {
				srt := h.w.sortOf(h.d, fty)
				out[h.w.fieldArrName(ty, i)] = SArray(SPtr, srt)
			}
		}
		return
	}
	if at, ok := ty.Underlying().(*types.Array); ok {
		h.arraysOfType(at.Elem(), out)
		return
	}
	srt := h.w.sortOf(h.d, ty)
	out[memArrName(srt)] = SArray(SPtr, srt)
}

func (h *HeapCtx) arraysOfField(sty types.Type, idx int, out map[string]*Sort) {
	si := h.w.structInfo(sty)
	if !si.has(idx) {
		return
	}
	fty := si.T.Field(idx).Type()
	if isStructT(fty) || isArrayT(fty) {
		h.arraysOfType(fty, out)
		return
	}
	out[h.w.fieldArrName(sty, idx)] = SArray(SPtr, h.w.sortOf(h.d, fty))
}

// ---- maps ----

type mapArrs struct {
	k, v           *Sort
	dom, val, card string
	domS, valS     *Sort
}

func (h *HeapCtx) mapArrs(mt *types.Map) mapArrs {
	k := h.w.sortOf(h.d, mt.Key())
	v := h.w.sortOf(h.d, mt.Elem())
	dn, vn, cn := mapArrNames(k, v)
	if h.mapZero == nil {
		h.mapZero = map[string]*Term{}
	}
	if _, ok := h.mapZero[vn]; !ok {
		h.mapZero[vn] = h.w.zero(h.d, mt.Elem())
	}
	return mapArrs{k, v, dn, vn, cn, SArray(SPtr, SArray(k, SBool)), SArray(SPtr, SArray(k, v))}
}

func (h *HeapCtx) arraysOfMap(mt *types.Map, out map[string]*Sort) {
	ma := h.mapArrs(mt)
	out[ma.dom] = ma.domS
	out[ma.val] = ma.valS
	out[ma.card] = SArray(SPtr, SInt)
}

// Representation invariants of the map encoding (assumed of every array version, preserved by every
// operation the engine emits): the nil map has an empty domain and cardinality 0, and an absent key holds
// the zero value. They make every map read a plain select (good triggers, small terms).

// mapDom returns the (Array K Bool) domain of map m.
func (h *HeapCtx) mapDom(st *State, mt *types.Map, m *Term) *Term {
	ma := h.mapArrs(mt)
	return Select(h.arr(st, ma.dom, ma.domS), m)
}

func (h *HeapCtx) mapHas(st *State, mt *types.Map, m, k *Term) *Term {
	ma := h.mapArrs(mt)
	return Select(Select(h.arr(st, ma.dom, ma.domS), m), k)
}

// mapGet returns the value for key k (zero when absent, by the representation invariant).
func (h *HeapCtx) mapGet(st *State, mt *types.Map, m, k *Term) *Term {
	ma := h.mapArrs(mt)
	h.arr(st, ma.dom, ma.domS) // make sure the pair invariant is emitted
	return Select(Select(h.arr(st, ma.val, ma.valS), m), k)
}

func (h *HeapCtx) mapCard(st *State, mt *types.Map, m *Term) *Term {
	ma := h.mapArrs(mt)
	return Select(h.arr(st, ma.card, SArray(SPtr, SInt)), m)
}

func (h *HeapCtx) mapSet(st *State, mt *types.Map, m, k, v *Term) {
	ma := h.mapArrs(mt)
	domA := h.arr(st, ma.dom, ma.domS)
	valA := h.arr(st, ma.val, ma.valS)
	cardA := h.arr(st, ma.card, SArray(SPtr, SInt))
	had := Select(Select(domA, m), k)
	h.setArr(st, ma.card, Store(cardA, m, Ite(had, Select(cardA, m), Add(Select(cardA, m), IntLit(1)))))
	h.setArr(st, ma.dom, Store(domA, m, Store(Select(domA, m), k, TTrue)))
	h.setArr(st, ma.val, Store(valA, m, Store(Select(valA, m), k, v)))
}

func (h *HeapCtx) mapDelete(st *State, mt *types.Map, m, k *Term) {
	ma := h.mapArrs(mt)
	domA := h.arr(st, ma.dom, ma.domS)
	valA := h.arr(st, ma.val, ma.valS)
	cardA := h.arr(st, ma.card, SArray(SPtr, SInt))
	had := Select(Select(domA, m), k)
	// delete on a nil map is a no-op: its domain stays empty, its (never used) value entry zero, card 0
	h.setArr(st, ma.card, Store(cardA, m, Ite(had, Sub(Select(cardA, m), IntLit(1)), Select(cardA, m))))
	h.setArr(st, ma.dom, Store(domA, m, Store(Select(domA, m), k, TFalse)))
	h.setArr(st, ma.val, Store(valA, m, Store(Select(valA, m), k, h.w.zero(h.d, mt.Elem()))))
}

// mapRepInv: the representation invariant for the current versions of a map type's arrays in st.
func (h *HeapCtx) mapRepInv(dom, val, card *Term, zero *Term) *Term {
	mv := &Term{"rm", SPtr}
	kv := &Term{"rk", dom.Sort.V.K}
	var cs []*Term
	if dom != nil {
		cs = append(cs, Eq(Select(dom, TNil), ConstArray(dom.Sort.V, TFalse)))
	}
	if card != nil {
		cs = append(cs, Eq(Select(card, TNil), IntLit(0)))
	}
	if dom != nil && val != nil && zero != nil {
		cs = append(cs, Forall([]Bound{{"rm", SPtr}, {"rk", dom.Sort.V.K}},
			Implies(Not(Select(Select(dom, mv), kv)), Eq(Select(Select(val, mv), kv), zero)),
			[]*Term{Select(Select(val, mv), kv)}))
	}
	return And(cs...)
}

// mapWF is the well-formedness fact relating cardinality and domain of map m in st.
func (h *HeapCtx) mapWF(st *State, mt *types.Map, m *Term) *Term {
	ma := h.mapArrs(mt)
	card := h.mapCard(st, mt, m)
	kv := Bound{"wfk", ma.k}
	kt := &Term{"wfk", ma.k}
	has := Select(h.mapDom(st, mt, m), kt)
	return And(Le(IntLit(0), card),
		Eq(Eq(card, IntLit(0)), Forall([]Bound{kv}, Not(has))))
}

func sortedKeys(m map[string]*Sort) []string {
	var ks []string
	for k := range m {
		ks = append(ks, k)
	}
	sort.Strings(ks)
	return ks
}

// immAt: element i of an immutable byte-string-like slice value
func (h *HeapCtx) immAt(s, i *Term, elem types.Type) *Term {
	es := h.w.sortOf(h.d, elem)
	name := "imm_at_" + es.Mangle()
	h.d.Fun(name, []*Sort{SSlc, SInt}, es)
	return mk(es, name, s, i)
}

// arraysOfTypeMem: arrays holding a value of type ty in memory (arrays are element-wise).
func (h *HeapCtx) arraysOfTypeMem(ty types.Type, out map[string]*Sort) { h.arraysOfType(ty, out) }

// arrSlice: the slice x[:] of an array value treated as an immutable temporary (a function of the content)
func (h *HeapCtx) arrSlice(arr *Term) *Term {
	fn := "conv_" + arr.Sort.Mangle() + "_Slice"
	h.d.Fun(fn, []*Sort{arr.Sort}, SSlc)
	return mk(SSlc, fn, arr)
}

// elemsOf: the set of element values of slice s in memory array m, as an SMT array (T -> Bool),
// axiomatised with a Skolem index function so that membership has usable triggers.
func (h *HeapCtx) elemsOf(m, s *Term, es *Sort) *Term {
	en := "elems_" + es.Mangle()
	in := "idxof_" + es.Mangle()
	ms := SArray(SPtr, es)
	rs := SArray(es, SBool)
	h.d.Fun(en, []*Sort{ms, SSlc}, rs)
	h.d.Fun(in, []*Sort{ms, SSlc, es}, SInt)
	h.d.Raw(en+"$ax", fmt.Sprintf(`(assert (forall ((m %[1]s) (s Slice) (j Int)) (! (=> (and (<= 0 j) (< j (s_len s))) (select (%[2]s m s) (select m (s_elem s j)))) :pattern ((%[2]s m s) (select m (s_elem s j))))))
(assert (forall ((m %[1]s) (s Slice) (x %[3]s)) (! (=> (select (%[2]s m s) x) (and (<= 0 (%[4]s m s x)) (< (%[4]s m s x) (s_len s)) (= (select m (s_elem s (%[4]s m s x))) x))) :pattern ((select (%[2]s m s) x)))))`, ms.Name, en, es.Name, in))
	return mk(rs, en, m, s)
}

// elemsFrame: after an update of memory array `before` into `after` that only touches element cells of the
// array object tarr, the element set of every slice over a different array object is unchanged.
// (A consequence of the frame condition and of the definition of elems; stated for the solver's benefit.)
func (h *HeapCtx) elemsFrame(before, after, tarr *Term) *Term {
	es := before.Sort.V
	if es == nil || es.IsArray() {
		return nil
	}
	switch es {
	case SStr, SInt, SPtr, SBool:
	default:
		if !strings.HasPrefix(es.Name, "TP_") {
			return nil
		}
	}
	sv := &Term{"es", SSlc}
	jv := &Term{"ej", SInt}
	e1 := h.elemsOf(after, sv, es)
	e0 := h.elemsOf(before, sv, es)
	return And(
		Forall([]Bound{{"es", SSlc}}, Implies(Not(Eq(SlcArr(sv), tarr)), Eq(e1, e0)), []*Term{e1}),
		Forall([]Bound{{"es", SSlc}, {"ej", SInt}}, Implies(Not(Eq(SlcArr(sv), tarr)),
			Eq(Select(after, SlcElemAddr(sv, jv)), Select(before, SlcElemAddr(sv, jv)))), []*Term{Select(after, SlcElemAddr(sv, jv))}))
}

// elemsSupported: element sorts for which the elems set function is used
func elemsSupported(es *Sort) bool {
	if es == nil || es.IsArray() {
		return false
	}
	switch es {
	case SStr, SInt, SPtr, SBool, SIfc:
		return true
	}
	return strings.HasPrefix(es.Name, "TP_")
}

type ancestor struct {
	t     *Term
	bound *Term   // smallest allocation counter of the hops walked so far (nil for the start)
	conds []*Term // conditions of the conditional hops walked so far
}

// ancestors lists the versions reachable from t by walking fresh-only hops backwards (t itself first).
func (h *HeapCtx) ancestors(t *Term) []ancestor {
	out := []ancestor{{t: t}}
	cur := t
	var bound *Term
	var conds []*Term
	for steps := 0; steps < 64; steps++ {
		fp, ok := h.freshFrom[cur.S]
		if !ok {
			break
		}
		if bound == nil {
			bound = fp.next
		} else {
			bound = h.named(mk(SInt, "ite", Lt(fp.next, bound), fp.next, bound))
		}
		if fp.cond != nil {
			conds = append(conds, h.named(fp.cond))
		}
		cur = fp.old
		out = append(out, ancestor{t: cur, bound: bound, conds: append([]*Term{}, conds...)})
	}
	return out
}

// named: a large provenance term (nested min-of-bounds / conjunction of hop conditions) is given a name once, so that
// chains through many merge points stay linear in size instead of tripling at every step.
func (h *HeapCtx) named(t *Term) *Term {
	if t == nil || len(t.S) < 400 || h.emit == nil {
		return t
	}
	if h.namedC == nil {
		h.namedC = map[string]*Term{}
	}
	if c, ok := h.namedC[t.S]; ok {
		return c
	}
	c := h.d.Fresh("prov", t.Sort)
	h.emit(Eq(c, t))
	h.namedC[t.S] = c
	return c
}

// noteMergeHop: the merged version nv of several versions that all descend from a common ancestor by fresh-only hops
// also differs from that ancestor only at objects allocated after the smallest bound.
func (h *HeapCtx) noteMergeHop(nv *Term, ts []*Term, edgeConds []*Term) {
	if h.freshFrom == nil || len(ts) == 0 {
		return
	}
	first := h.ancestors(ts[0])
	for _, a := range first {
		bound := a.bound
		var conds []*Term
		for _, c := range a.conds {
			conds = append(conds, Implies(edgeConds[0], c)) // a hop condition of one path matters only on that path
		}
		okAll := true
		for ti, t := range ts[1:] {
			found := false
			for _, b := range h.ancestors(t) {
				if b.t.S == a.t.S {
					found = true
					if b.bound != nil {
						if bound == nil {
							bound = b.bound
						} else {
							bound = h.named(mk(SInt, "ite", Lt(b.bound, bound), b.bound, bound))
						}
					}
					for _, c := range b.conds {
						conds = append(conds, Implies(edgeConds[ti+1], c))
					}
					break
				}
			}
			if !found {
				okAll = false
				break
			}
		}
		if okAll {
			if bound == nil {
				return // all versions identical to the ancestor: nothing to record
			}
			var c *Term
			if len(conds) > 0 {
				c = h.named(And(conds...))
			}
			h.freshFrom[nv.S] = freshProv{a.t, bound, c}
			return
		}
	}
}
