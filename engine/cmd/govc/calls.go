package main

// Calls: builtins, contracts of callees, closures, modifies sets.

import (
	"fmt"
	"go/token"
	"go/types"
	"os"
	"sort"
	"strings"

	"golang.org/x/tools/go/packages"
	"golang.org/x/tools/go/ssa"
)

func calleeName(fn *ssa.Function) string {
	if o := fn.Origin(); o != nil {
		return o.String()
	}
	return fn.String()
}

func addrRoot(v ssa.Value) ssa.Value {
	for {
		switch x := v.(type) {
		case *ssa.FieldAddr:
			v = x.X
		case *ssa.IndexAddr:
			if _, isPtr := x.X.Type().Underlying().(*types.Pointer); isPtr {
				v = x.X
			} else {
				return v
			}
		default:
			return v
		}
	}
}

func ghostSort(n string) *Sort {
	switch n {
	case "$next":
		return SInt
	case "$held":
		return SArray(SPtr, SInt)
	}
	return SInt
}

// resolveCallee finds name, contract and (if static) the function of a call.
func (w *World) resolveCallee(c *ssa.CallCommon) (string, *Contract, *ssa.Function) {
	if c.IsInvoke() {
		name := "(" + types.TypeString(c.Value.Type(), nil) + ")." + c.Method.Name()
		return name, w.contractFor(name), nil
	}
	if fn := c.StaticCallee(); fn != nil {
		name := calleeName(fn)
		return name, w.contractFor(name), fn
	}
	// dynamic: function value loaded from a struct field?
	if name := fieldFuncName(c.Value); name != "" {
		return name, w.contractFor(name), nil
	}
	return "", nil, nil
}

func fieldFuncName(v ssa.Value) string {
	if u, ok := v.(*ssa.UnOp); ok && u.Op == token.MUL {
		if fa, ok := u.X.(*ssa.FieldAddr); ok {
			st := derefType(fa.X.Type())
			return "field:" + types.TypeString(st, nil) + "." + st.Underlying().(*types.Struct).Field(fa.Field).Name()
		}
	}
	return ""
}

// ---------- call translation ----------

func (ft *FuncTr) call(st *State, at *Term, in ssa.Instruction, c *ssa.CallCommon, v ssa.Value) (Val, error) {
	var args []Val
	for _, a := range c.Args {
		args = append(args, ft.val(a))
	}
	fnv := Val{}
	if _, isB := c.Value.(*ssa.Builtin); !isB {
		fnv = ft.val(c.Value)
	}
	cname := ""
	if sc := c.StaticCallee(); sc != nil {
		cname = calleeName(sc)
	} else if c.IsInvoke() {
		cname = c.Method.Name()
	} else if b, ok := c.Value.(*ssa.Builtin); ok {
		cname = b.Name()
	} else if fname := fieldFuncName(c.Value); fname != "" {
		cname = fname // call of a function stored in a struct field: field:<pkg>.<Type>.<field>
	}
	ft.curCallNth = ft.callOrdinal(in, cname)
	if cname != "" && ft.calledTrack[lastName(cname)] {
		st.ghost["$called_"+lastName(cname)] = TTrue // `called(name)` in exit / loop-end assertions
	}
	// escape: a callee (or an append / copy into an older array) can make objects allocated here reachable from older
	// objects only if it is handed something that can carry a reference
	if _, isB := c.Value.(*ssa.Builtin); !isB {
		carries := c.IsInvoke() || c.StaticCallee() == nil
		if sc := c.StaticCallee(); sc != nil && len(sc.FreeVars) > 0 {
			carries = true
		}
		for _, a := range c.Args {
			if ft.w.mayCarryRef(a.Type(), 0) {
				carries = true
			}
		}
		if carries {
			ft.leak()
		}
	} else if cname == "append" || cname == "copy" {
		if st, ok := c.Args[0].Type().Underlying().(*types.Slice); ok && ft.w.mayCarryRef(st.Elem(), 0) {
			ft.leak()
		}
	}
	if cname != "" && os.Getenv("GOVC_CALLS") != "" {
		fmt.Fprintf(os.Stderr, "call %s#%d at %s\n", lastName(cname), ft.curCallNth, ft.posStr(in.Pos()))
	}
	ft.curCallArgs, ft.curCallCommon = args, c
	errA := ft.anchored(st, nil, at, in, cname, true)
	ft.curCallArgs, ft.curCallCommon = nil, nil
	if errA != nil {
		return Val{}, errA
	}
	var preCall *State
	if len(ft.c.Anchored) > 0 {
		preCall = st.clone()
	}
	r, err := ft.callWith(st, at, in, c, v, args, fnv)
	if err != nil {
		return r, err
	}
	ft.lastCallRes, ft.lastCallSig = &r, c.Signature()
	err = ft.anchored(st, preCall, at, in, cname, false)
	ft.lastCallRes, ft.lastCallSig = nil, nil
	if err != nil {
		return Val{}, err
	}
	return r, nil
}

// anchored: intermediate assertions of the contract placed before/after calls of a given callee
func (ft *FuncTr) anchored(st *State, preCall *State, at *Term, in ssa.Instruction, cname string, before bool) error {
	if cname == "" {
		return nil
	}
	for i, a := range ft.c.Anchored {
		if a.Before != before {
			continue
		}
		want := a.Callee
		nth := 0
		if k := strings.LastIndex(want, "#"); k > 0 {
			fmt.Sscanf(want[k+1:], "%d", &nth)
			want = want[:k]
		}
		if !(cname == want || strings.HasSuffix(cname, "."+want) || strings.HasSuffix(cname, "/"+want)) {
			continue
		}
		if nth > 0 && ft.curCallNth != nth {
			continue
		}
		if ft.anchorHit == nil {
			ft.anchorHit = map[int]bool{}
		}
		ft.anchorHit[i] = true
		if a.Lemma != "" {
			var lm *LemmaDef
			for _, l := range ft.w.lemmas {
				if l.Name == a.Lemma {
					lm = l
				}
			}
			if lm == nil {
				return fmt.Errorf("apply %s (%s:%d): no such lemma", a.Lemma, a.C.File, a.C.Line)
			}
			envL := &SpecEnv{h: ft.h, w: ft.w, pkg: ft.w.pkgs[lm.Pkg], vars: map[string]SV{}, st: st, old: st, qn: &ft.qn}
			if envL.pkg == nil {
				envL.pkg = ft.w.pkgOfFunc(ft.fn)
			}
			lemE := lm.E
			if len(a.Inst) > 0 {
				q, ok := lemE.(*EQuant)
				if !ok || !q.Forall || len(q.Vars) < len(a.Inst) {
					return fmt.Errorf("apply %s (%s:%d): the lemma does not start with %d universally quantified variables", a.Lemma, a.C.File, a.C.Line, len(a.Inst))
				}
				// the instantiating expressions are evaluated in the function's scope at this point
				envI := ft.newEnv(st)
				envI.pos = in.Pos()
				for k, ie := range a.Inst {
					v := envI.tr(ie)
					envL = envL.bind(q.Vars[k].Name, SV{T: envI.val(v), Ty: v.Ty})
				}
				if len(q.Vars) > len(a.Inst) {
					lemE = &EQuant{Forall: true, Vars: q.Vars[len(a.Inst):], Triggers: q.Triggers, Body: q.Body}
				} else {
					lemE = q.Body
				}
			}
			lt, err := envL.trBool(lemE)
			if err != nil {
				return fmt.Errorf("apply %s (%s:%d): %v", a.Lemma, a.C.File, a.C.Line, err)
			}
			ft.assume(at, lt)
			ft.w.noteUsedLemma(a.Lemma)
			continue
		}
		env := ft.newEnv(st)
		env.pos = in.Pos()
		if !env.pos.IsValid() {
			env.pos = ft.curPos // synthetic instruction (e.g. the len of a range loop): the last source position seen
		}
		env.pre = preCall
		if l := ft.loopOf[in.Block()]; l != nil && l.head != nil {
			env.headSt = l.head
		}
		if before && ft.curCallCommon != nil {
			// arg0, arg1, ...: the call's arguments (for a method call arg0 is the receiver)
			for k, av := range ft.curCallArgs {
				if av.T != nil && k < len(ft.curCallCommon.Args) {
					env.vars[fmt.Sprintf("arg%d", k)] = SV{T: av.T, Ty: ft.curCallCommon.Args[k].Type()}
				}
			}
		}
		if !before && ft.lastCallRes != nil && ft.lastCallSig != nil {
			// ret / ret0, ret1, ...: the values the call returned
			rs := ft.lastCallSig.Results()
			if rs.Len() == 1 && ft.lastCallRes.T != nil {
				env.vars["ret"] = SV{T: ft.lastCallRes.T, Ty: rs.At(0).Type()}
				env.vars["ret0"] = env.vars["ret"]
			} else if rs.Len() == len(ft.lastCallRes.Tuple) {
				for k, tv := range ft.lastCallRes.Tuple {
					if tv.T != nil {
						env.vars[fmt.Sprintf("ret%d", k)] = SV{T: tv.T, Ty: rs.At(k).Type()}
					}
				}
			}
		}
		var side []*Term
		env.side = &side
		t, err := env.trBool(a.C.E)
		if err != nil {
			return fmt.Errorf("assert %s (%s:%d): %v", a.Callee, a.C.File, a.C.Line, err)
		}
		for _, s := range side {
			ft.assume(at, s)
		}
		when := "after"
		if before {
			when = "before"
		}
		ft.assert(at, t, fmt.Sprintf("assert.%s[%s]", when, clauseID(a.C, i)), a.Callee, a.C.Text, in.Pos())
	}
	return nil
}

func (ft *FuncTr) callWith(st *State, at *Term, in ssa.Instruction, c *ssa.CallCommon, v ssa.Value, args []Val, fnv Val) (Val, error) {
	if b, ok := c.Value.(*ssa.Builtin); ok {
		return ft.builtin(st, at, in, c, b, args)
	}
	if ft.isRangeFuncCall(c) {
		return ft.rangeFuncCall(st, at, in, c, args, fnv)
	}
	if sc := c.StaticCallee(); sc != nil && calleeName(sc) == "maps.Keys" {
		return ft.mapsKeys(st, at, c, args)
	}
	if sc := c.StaticCallee(); sc != nil && calleeName(sc) == "sort.Slice" {
		return ft.sortSlice(st, at, in, c, args)
	}
	if sc := c.StaticCallee(); sc != nil && calleeName(sc) == "sort.Strings" {
		return ft.sortStrings(st, at, in, c, args)
	}
	sig := c.Signature()
	name, con, fn := ft.w.resolveCallee(c)
	var argT []*Term
	if c.IsInvoke() {
		argT = append(argT, fnv.T)
	}
	for i, a := range args {
		if a.T == nil {
			if ft.abstract && con == nil {
				return ft.abstractCall(st, at, sig, fn, name)
			}
			return Val{}, unsupported(fmt.Sprintf("call argument %d is not a term", i))
		}
		argT = append(argT, a.T)
	}
	if con == nil && fn == nil && !c.IsInvoke() {
		// dynamic call
		if f2, ok := ft.fnOfTerm(fnv); ok {
			fn = f2
			name = calleeName(fn)
			con = ft.w.contractFor(name)
			// bound closure values are passed through free variables: handled below
		} else if p, ok := c.Value.(*ssa.UnOp); ok && ft.isPureParamLoad(p) {
			r := ft.h.fnApp(st, fnv.T, sig, argT)
			return Val{T: r}, nil
		}
	}
	if con == nil && ft.abstract {
		return ft.abstractCall(st, at, sig, fn, name)
	}
	if con == nil {
		if name == "" {
			return Val{}, unsupported("dynamic call of unknown function value")
		}
		return Val{}, unsupported("callee " + name + " needs a contract")
	}
	con.Used = true
	ft.recvTy = nil
	if c.IsInvoke() {
		ft.recvTy = c.Value.Type()
	}
	return ft.applyContract(st, at, in, name, con, fn, sig, argT, fnv)
}

func (ft *FuncTr) isPureParamLoad(u *ssa.UnOp) bool {
	if u.Op != token.MUL {
		return false
	}
	if al, ok := u.X.(*ssa.Alloc); ok {
		return ft.pureParams[al.Comment]
	}
	return false
}

func (ft *FuncTr) fnOfTerm(v Val) (*ssa.Function, bool) {
	if v.Fn != nil {
		return v.Fn, true
	}
	return nil, false
}

func sigNames(sig *types.Signature, invoke bool) (names []string, tys []types.Type) {
	if r := sig.Recv(); r != nil {
		n := r.Name()
		if n == "" || n == "_" {
			n = "self"
		}
		names = append(names, n)
		tys = append(tys, r.Type())
	} else if invoke {
		names = append(names, "self")
		tys = append(tys, nil)
	}
	for i := 0; i < sig.Params().Len(); i++ {
		p := sig.Params().At(i)
		n := p.Name()
		if n == "" || n == "_" {
			n = fmt.Sprintf("arg%d", i)
		}
		names = append(names, n)
		tys = append(tys, p.Type())
	}
	return
}

func (ft *FuncTr) calleePkg(con *Contract, fn *ssa.Function) *packages.Package {
	if p := ft.w.pkgs[con.Pkg]; p != nil {
		return p
	}
	if fn != nil {
		if p := ft.w.pkgOfFunc(fn); p != nil {
			return p
		}
	}
	return ft.w.pkgOfFunc(ft.fn)
}

func (ft *FuncTr) applyContract(st *State, at *Term, in ssa.Instruction, name string, con *Contract, fn *ssa.Function, sig *types.Signature, argT []*Term, fnv Val) (Val, error) {
	short := strings.ReplaceAll(name, "go.universe.tf/metallb/", "")
	if fn != nil && len(fn.TypeArgs()) > 0 && fn.Origin() != nil {
		tps := fn.Origin().TypeParams()
		if tps.Len() == len(fn.TypeArgs()) {
			saveSub, saveTP := ft.w.tsubst, ft.w.tparams
			sub := map[string]types.Type{}
			tp := map[string]types.Type{}
			for k, v := range saveTP {
				tp[k] = v
			}
			for i := 0; i < tps.Len(); i++ {
				sub[tps.At(i).Obj().Name()] = fn.TypeArgs()[i]
				tp[tps.At(i).Obj().Name()] = tps.At(i)
			}
			ft.w.tsubst, ft.w.tparams = sub, tp
			defer func() { ft.w.tsubst, ft.w.tparams = saveSub, saveTP }()
		}
	}
	var fsig *types.Signature
	if fn != nil {
		fsig = fn.Signature
	} else {
		fsig = sig
	}
	invoke := fn == nil && !strings.HasPrefix(name, "field:")
	names, tys := sigNames(fsig, invoke)
	if invoke && fsig.Recv() == nil {
		// interface method signature without receiver: first arg is the interface value
	}
	if len(names) != len(argT) {
		// closures: free variables are not arguments; tolerate static funcs w/o receiver mismatch
		if len(names)+0 != len(argT) {
			return Val{}, unsupported(fmt.Sprintf("call of %s: %d names for %d arguments", name, len(names), len(argT)))
		}
	}
	pkg := ft.calleePkg(con, fn)
	vars := map[string]SV{}
	for i, n := range names {
		ty := tys[i]
		if i == 0 && ft.recvTy != nil && invoke {
			ty = ft.recvTy
		}
		if ty == nil {
			ty = types.NewInterfaceType(nil, nil)
		}
		vars[n] = SV{T: argT[i], Ty: ty}
	}
	// free variables of a closure callee
	if fn != nil && len(fn.FreeVars) > 0 {
		if len(fnv.Binds) != len(fn.FreeVars) {
			return Val{}, unsupported("call of closure with unknown bindings")
		}
		for i, fv := range fn.FreeVars {
			vars[fv.Name()] = ft.bindSVAt(st, fnv.Binds[i], fv)
		}
	}
	pre := st.clone()
	envPre := &SpecEnv{h: ft.h, w: ft.w, pkg: pkg, vars: vars, st: pre, old: pre, qn: &ft.qn}
	pos := in.Pos()
	for i, r := range con.Requires {
		t, err := envPre.trBool(r.E)
		if err != nil {
			return Val{}, fmt.Errorf("requires[%d] of %s: %v", i+1, name, err)
		}
		ft.assert(at, t, "call.requires", short+"/"+clauseID(r, i), r.Text, pos)
	}
	// havoc
	if con.ModAll {
		// `modifies *`: every heap cell may have changed (a new heap epoch; the lock state is kept, as for abstracted calls)
		if ft.ownMod != nil {
			ft.assert(at, TFalse, "frame", "*/"+short, "callee may write everything, which this function's modifies clause does not allow", pos)
		}
		oldN := ft.h.nextID(st)
		ft.h.havocAll(st)
		nxA := ft.d.Fresh("g_next_m", SInt)
		ft.assume(at, Le(oldN, nxA))
		st.ghost["$next"] = nxA
	}
	ms, err := ft.w.modsOfCall(ft.h, envPre, name, con, fn, map[string]bool{})
	if err != nil {
		return Val{}, err
	}
	ft.noteCalleeWrites(st, at, ms, short, pos)
	oldNext := ft.h.nextID(pre)
	type havocRec struct{ before, after *Term }
	var havocked []havocRec
	for _, n := range ms.names() {
		am := ms.arrs[n]
		before := ft.h.arr(st, n, am.sort)
		after := ft.d.Fresh(n+"_c", am.sort)
		if !strings.HasPrefix(n, "G_") {
			havocked = append(havocked, havocRec{before, after})
		}
		ft.h.setArr(st, n, after)
		if !am.whole {
			ft.assume(at, frameCond(am, before, after, oldNext))
		}
		if !am.whole && len(am.locs) == 0 {
			ft.h.noteFreshFrame(before, after, oldNext)
			ft.elemsFreshFrame(at, before, after, oldNext)
		} else if !am.whole {
			if c := ft.locsEmptyCond(am.locs); c.S != "false" {
				ft.h.noteFreshFrameCond(before, after, oldNext, c)
			}
		}
	}
	for _, n := range sortedKeys(ms.ghost) {
		nv := ft.d.Fresh("g_"+n+"_c", ms.ghost[n])
		if n == "$next" {
			ft.assume(at, Le(oldNext, nv))
		}
		st.ghost[n] = nv
	}
	for _, n := range ms.names() {
		ft.h.noteHavoc(st.heap[n], ft.h.nextID(st))
		ft.h.noteMapArr(st, n)
	}
	// results
	res := fsig.Results()
	var rvals []Val
	var rsv []SV
	for i := 0; i < res.Len(); i++ {
		rt := res.At(i).Type()
		t := ft.d.Fresh("r_"+lastName(short), ft.w.sortOf(ft.d, rt))
		ft.assume(at, ft.typeInv(st, t, rt))
		rvals = append(rvals, Val{T: t})
		rsv = append(rsv, SV{T: t, Ty: rt})
	}
	if con.Pure && res.Len() == 1 {
		ft.assume(at, Eq(rvals[0].T, ft.h.pureApp(name, argT, res.At(0).Type())))
	}
	post := map[string]SV{}
	for k, v := range vars {
		post[k] = v
	}
	for i := 0; i < res.Len(); i++ {
		n := res.At(i).Name()
		if n != "" && n != "_" {
			post[n] = rsv[i]
		}
		post[fmt.Sprintf("result%d", i)] = rsv[i]
		if res.Len() == 1 {
			post["result"] = rsv[i]
		}
	}
	envPost := &SpecEnv{h: ft.h, w: ft.w, pkg: pkg, vars: post, st: st, old: pre, qn: &ft.qn}
	var side []*Term
	envPost.side = &side
	for i, en := range con.Ensures {
		t, err := envPost.trBool(en.E)
		if err != nil {
			return Val{}, fmt.Errorf("ensures[%d] of %s: %v", i+1, name, err)
		}
		ft.assume(at, t)
	}
	for _, s := range side {
		ft.assume(at, s)
	}
	// readonly when cond: under cond the havocked arrays keep every cell of objects allocated before the call
	for i, rc := range con.ReadonlyWhen {
		cond, err := envPost.trBool(rc.E)
		if err != nil {
			return Val{}, fmt.Errorf("readonly[%d] of %s: %v", i+1, name, err)
		}
		for _, hv := range havocked {
			if hv.before.Sort.K != SPtr {
				continue
			}
			ft.assume(at, Implies(cond, frameCond(&ArrMod{sort: hv.before.Sort}, hv.before, hv.after, oldNext)))
			if _, has := ft.h.freshFrom[hv.after.S]; !has && i == 0 {
				ft.h.noteFreshFrameCond(hv.before, hv.after, oldNext, cond)
			}
		}
	}
	switch len(rvals) {
	case 0:
		return Val{}, nil
	case 1:
		return rvals[0], nil
	}
	return Val{Tuple: rvals}, nil
}

func lastName(s string) string {
	if i := strings.LastIndexAny(s, "./)"); i >= 0 && i+1 < len(s) {
		return s[i+1:]
	}
	return s
}

// ---------- builtins ----------

func (ft *FuncTr) builtin(st *State, at *Term, in ssa.Instruction, c *ssa.CallCommon, b *ssa.Builtin, args []Val) (Val, error) {
	switch b.Name() {
	case "len":
		a := args[0].T
		switch t := c.Args[0].Type().Underlying().(type) {
		case *types.Slice:
			return Val{T: SlcLen(a)}, nil
		case *types.Map:
			ft.requireGuard(st, at, c.Args[0], false, in.Pos())
			ft.assume(at, ft.h.mapWF(st, t, a))
			return Val{T: ft.h.mapCard(st, t, a)}, nil
		case *types.Basic:
			return Val{T: mk(SInt, "str_len", a)}, nil
		case *types.Array:
			return Val{T: IntLit(t.Len())}, nil
		case *types.Pointer:
			if at2, ok := t.Elem().Underlying().(*types.Array); ok {
				return Val{T: IntLit(at2.Len())}, nil
			}
		}
		return Val{}, unsupported("len of " + c.Args[0].Type().String())
	case "cap":
		if _, ok := c.Args[0].Type().Underlying().(*types.Slice); ok {
			return Val{T: SlcCap(args[0].T)}, nil
		}
		return Val{}, unsupported("cap of " + c.Args[0].Type().String())
	case "append":
		return ft.appendBuiltin(st, at, in, c, args)
	case "copy":
		return ft.copyBuiltin(st, at, in, c, args)
	case "delete":
		ft.requireGuard(st, at, c.Args[0], true, in.Pos())
		mt := c.Args[0].Type().Underlying().(*types.Map)
		ft.mapWriteFrame(st, at, mt, args[0].T, in.Pos())
		ft.h.mapDelete(st, mt, args[0].T, args[1].T)
		return Val{}, nil
	case "min", "max":
		r := args[0].T
		for _, a := range args[1:] {
			if b.Name() == "min" {
				r = Ite(Le(a.T, r), a.T, r)
			} else {
				r = Ite(Le(r, a.T), a.T, r)
			}
		}
		return Val{T: r}, nil
	case "print", "println":
		return Val{}, nil
	case "ssa:deferstack":
		return Val{T: TNil}, nil
	case "ssa:wrapnilchk":
		ft.assertNonNil(at, args[0].T, "wrapnilchk", "receiver must not be nil", in.Pos())
		return args[0], nil
	}
	return Val{}, unsupported("builtin " + b.Name())
}

func (ft *FuncTr) mapWriteFrame(st *State, at *Term, mt *types.Map, m *Term, pos token.Pos) {
	if ft.ownMod == nil {
		return
	}
	ma := ft.h.mapArrs(mt)
	ft.onWrite(st, at, ma.dom, m, pos)
}

// isElemOf: p is the address Elem(base, i) for some i; returns (cond, i)
func isElemOf(p, base *Term) (*Term, *Term) {
	return isElemOfX(p, base, false)
}

// isElemOfX: with nn, a nil base has no elements (Elem(Nil, i) is a junk location of the encoding)
func isElemOfX(p, base *Term, nn bool) (*Term, *Term) {
	pp := mk(nil, "path", p)
	nnc := TTrue
	if nn {
		nnc = Not(IsNil(base))
	}
	cond := And(Not(IsNil(p)), nnc, Eq(PObjID(p), PObjID(base)),
		&Term{"((_ is PE) " + pp.S + ")", SBool},
		Eq(&Term{"(pe_base " + pp.S + ")", nil}, &Term{"(path " + base.S + ")", nil}))
	return cond, &Term{"(pe_i " + pp.S + ")", SInt}
}

func (ft *FuncTr) appendBuiltin(st *State, at *Term, in ssa.Instruction, c *ssa.CallCommon, args []Val) (Val, error) {
	s := args[0].T
	add := args[1].T
	elem := c.Args[0].Type().Underlying().(*types.Slice).Elem()
	if isStringT(c.Args[1].Type()) {
		return Val{}, unsupported("append(bytes, string...)")
	}
	n := Add(SlcLen(s), SlcLen(add))
	grow := mk(SBool, ">", n, SlcCap(s))
	nx := ft.h.nextID(st)
	newID := ft.d.Fresh("app_id", SInt)
	ft.assume(at, Eq(newID, nx))
	st.ghost["$next"] = Add(nx, IntLit(1))
	newArr := PObj(newID)
	newCap := ft.d.Fresh("app_cap", SInt)
	ft.assume(at, Le(n, newCap))
	res := ft.d.Fresh("app_res", SSlc)
	ft.assume(at, Eq(res, Ite(grow, SlcMk(newArr, IntLit(0), n, newCap), SlcMk(SlcArr(s), SlcOff(s), n, SlcCap(s)))))
	tArr := Ite(grow, newArr, SlcArr(s))
	tOff := Ite(grow, IntLit(0), SlcOff(s))
	tac := ft.d.Fresh("app_tarr", SPtr)
	ft.assume(at, Eq(tac, tArr))
	toc := ft.d.Fresh("app_toff", SInt)
	ft.assume(at, Eq(toc, tOff))
	if ft.ownMod != nil {
		arrs0 := map[string]*Sort{}
		ft.h.arraysOfTypeMem(elem, arrs0)
		for _, an := range sortedKeys(arrs0) {
			am := ft.ownMod.arrs[an]
			if am != nil && am.whole {
				continue
			}
			allowed := []*Term{grow, Le(ft.h.nextID(ft.init), PObjID(SlcArr(s))), Eq(SlcLen(add), IntLit(0))}
			if am != nil {
				for _, l := range am.locs {
					if l.kind == LocElems {
						allowed = append(allowed, Eq(SlcArr(l.t), SlcArr(s)))
					}
				}
			}
			ft.assert(at, Or(allowed...), "frame", an+"/append", "append in place must target a fresh array or be covered by the modifies clause", in.Pos())
		}
	}
	arrs := map[string]*Sort{}
	ft.h.arraysOfTypeMem(elem, arrs)
	p := &Term{"ap", SPtr}
	inT, idx := isElemOf(p, tac)
	for _, an := range sortedKeys(arrs) {
		srt := arrs[an]
		before := ft.h.arr(st, an, srt)
		after := ft.d.Fresh(an+"_app", srt)
		start := Add(toc, SlcLen(s))
		inAdd := And(inT, Le(start, idx), Lt(idx, Add(start, SlcLen(add))))
		fromAdd := Select(before, PElem(SlcArr(add), Add(SlcOff(add), Sub(idx, start))))
		inCopy := And(grow, inT, Le(IntLit(0), idx), Lt(idx, SlcLen(s)))
		fromOld := Select(before, PElem(SlcArr(s), Add(SlcOff(s), idx)))
		body := Eq(Select(after, p), Ite(inAdd, fromAdd, Ite(inCopy, fromOld, Select(before, p))))
		ft.assume(at, Forall([]Bound{{"ap", SPtr}}, body, []*Term{Select(after, p)}))
		// redundant index-level consequences (they carry the triggers quantified invariants need)
		jq := &Term{"aj", SInt}
		ft.assume(at, Forall([]Bound{{"aj", SInt}}, Implies(And(Le(IntLit(0), jq), Lt(jq, SlcLen(s))),
			Eq(Select(after, SlcElemAddr(res, jq)), Select(before, SlcElemAddr(s, jq)))), []*Term{SlcElemAddr(res, jq)}, []*Term{SlcElemAddr(s, jq)}))
		ft.assume(at, Forall([]Bound{{"aj", SInt}}, Implies(And(Le(IntLit(0), jq), Lt(jq, SlcLen(add))),
			Eq(Select(after, SlcElemAddr(res, Add(SlcLen(s), jq))), Select(before, SlcElemAddr(add, jq)))), []*Term{SlcElemAddr(add, jq)}))
		// the same fact indexed by the position in the result (trigger on the result's element)
		ft.assume(at, Forall([]Bound{{"aj", SInt}}, Implies(And(Le(SlcLen(s), jq), Lt(jq, n)),
			Eq(Select(after, SlcElemAddr(res, jq)), Select(before, SlcElemAddr(add, Sub(jq, SlcLen(s)))))), []*Term{SlcElemAddr(res, jq)}))
		if ef := ft.h.elemsFrame(before, after, tac); ef != nil {
			ft.assume(at, ef)
		}
		if elemsSupported(srt.V) {
			// derived: the element set of the result is the union of the element sets of the operands
			xv := &Term{"ax", srt.V}
			er := Select(ft.h.elemsOf(after, res, srt.V), xv)
			addSet := Select(ft.h.elemsOf(before, add, srt.V), xv)
			if vs := ft.varargsElems(st, c.Args[1], before); vs != nil {
				// append(s, x1, ..., xn): the added elements are known
				var ds []*Term
				for _, v := range vs {
					ds = append(ds, Eq(xv, v))
				}
				addSet = Or(ds...)
			}
			ft.assume(at, Forall([]Bound{{"ax", srt.V}}, Eq(er, Or(Select(ft.h.elemsOf(before, s, srt.V), xv), addSet)), []*Term{er}))
			// the operand keeps its element set (an append in place writes beyond len(s), a growing one writes a new array)
			ft.assume(at, Eq(ft.h.elemsOf(after, s, srt.V), ft.h.elemsOf(before, s, srt.V)))
		}
		ft.h.setArr(st, an, after)
		// a growing append writes only the array it allocates; an append in place writes its operand's array: when
		// that is an array made here that has not escaped, no object older than the oldest such array is written
		{
			cond := grow
			bound := nx
			var keys []string
			for k := range ft.localArr {
				keys = append(keys, k)
			}
			sort.Strings(keys)
			for _, k := range keys {
				id := ft.localArr[k]
				cond = Or(cond, Eq(PObjID(SlcArr(s)), id))
				bound = mk(SInt, "ite", Lt(id, bound), id, bound)
			}
			ft.h.noteFreshFrameCond(before, after, bound, cond)
		}
	}
	return Val{T: res}, nil
}

func (ft *FuncTr) copyBuiltin(st *State, at *Term, in ssa.Instruction, c *ssa.CallCommon, args []Val) (Val, error) {
	dst := args[0].T
	src := args[1].T
	dt, ok := c.Args[0].Type().Underlying().(*types.Slice)
	if !ok || isStringT(c.Args[1].Type()) {
		return Val{}, unsupported("copy from string")
	}
	n := ft.d.Fresh("copy_n", SInt)
	ft.assume(at, Eq(n, Ite(Le(SlcLen(dst), SlcLen(src)), SlcLen(dst), SlcLen(src))))
	arrs := map[string]*Sort{}
	ft.h.arraysOfTypeMem(dt.Elem(), arrs)
	p := &Term{"cp", SPtr}
	inT, idx := isElemOf(p, SlcArr(dst))
	for _, an := range sortedKeys(arrs) {
		if ft.ownMod != nil {
			am := ft.ownMod.arrs[an]
			if am == nil || !am.whole {
				allowed := []*Term{Eq(n, IntLit(0)), Le(ft.h.nextID(ft.init), PObjID(SlcArr(dst)))}
				if am != nil {
					for _, l := range am.locs {
						if l.kind == LocElems {
							allowed = append(allowed, Eq(SlcArr(l.t), SlcArr(dst)))
						}
					}
				}
				ft.assert(at, Or(allowed...), "frame", an+"/copy", "copy must target a fresh array or be covered by the modifies clause", in.Pos())
			}
		}
		srt := arrs[an]
		before := ft.h.arr(st, an, srt)
		after := ft.d.Fresh(an+"_cpy", srt)
		inDst := And(inT, Le(SlcOff(dst), idx), Lt(idx, Add(SlcOff(dst), n)))
		from := Select(before, PElem(SlcArr(src), Add(SlcOff(src), Sub(idx, SlcOff(dst)))))
		body := Eq(Select(after, p), Ite(inDst, from, Select(before, p)))
		ft.assume(at, Forall([]Bound{{"cp", SPtr}}, body, []*Term{Select(after, p)}))
		// index-level consequence (carries the triggers quantified specs need)
		jq := &Term{"cj", SInt}
		ft.assume(at, Forall([]Bound{{"cj", SInt}}, Implies(And(Le(IntLit(0), jq), Lt(jq, n)),
			Eq(Select(after, SlcElemAddr(dst, jq)), Select(before, SlcElemAddr(src, jq)))), []*Term{SlcElemAddr(dst, jq)}, []*Term{SlcElemAddr(src, jq)}))
		if ef := ft.h.elemsFrame(before, after, SlcArr(dst)); ef != nil {
			ft.assume(at, ef)
		}
		ft.h.setArr(st, an, after)
	}
	return Val{T: n}, nil
}

// ---------- closures ----------

func (ft *FuncTr) makeClosure(st *State, at *Term, x *ssa.MakeClosure) error {
	fn := x.Fn.(*ssa.Function)
	var binds []Val
	for _, b := range x.Bindings {
		bv := ft.val(b)
		if bv.Ref != nil && len(bv.Ref.path) == 0 {
			if ft.lateCell(bv.Ref.alloc) {
				// read-only captured variable of a closure that is only called here: bound at call time
				bv = Val{Ref: bv.Ref, CellValue: true}
			} else {
				// snapshotted cell: bind the current value
				bv = Val{T: ft.localGet(st, bv.Ref.alloc), CellValue: true}
			}
		}
		binds = append(binds, bv)
	}
	con := ft.w.contractFor(calleeName(fn))
	if con != nil && con.Denotes != nil {
		// the closure value is, by its (separately verified) contract, this spec-level function value
		con.Used = true
		vars := map[string]SV{}
		for i, fv := range fn.FreeVars {
			vars[fv.Name()] = bindSV(binds[i], fv)
		}
		env := &SpecEnv{h: ft.h, w: ft.w, pkg: ft.w.pkgOfFunc(fn), vars: vars, st: st, old: st, qn: &ft.qn}
		var dv SV
		err := func() (err error) {
			defer func() {
				if r := recover(); r != nil {
					if se, ok := r.(specErr); ok {
						err = se
						return
					}
					panic(r)
				}
			}()
			dv = env.tr(con.Denotes)
			return nil
		}()
		if err != nil {
			return fmt.Errorf("denotes of %s: %v", fn.Name(), err)
		}
		dt := env.val(dv)
		c := ft.d.Fresh("closure_"+fn.Name(), SFn)
		ft.assume(at, Eq(c, dt))
		ft.vals[x] = Val{T: dt, Fn: fn, Binds: binds}
		ft.w.assume("function values are identified with their behaviour (extensionality): closure " + shortFuncName(fn) + " denotes " + con.DenotesText)
		return nil
	}
	t := ft.d.Fresh("closure_"+fn.Name(), SFn)
	ft.vals[x] = Val{T: t, Fn: fn, Binds: binds}
	// a pure closure with a functional contract gets its meaning as an axiom on app
	if con == nil || !con.Pure {
		return nil
	}
	con.Used = true
	sig := fn.Signature
	if sig.Results().Len() != 1 {
		return unsupported("pure closure must have one result")
	}
	vars := map[string]SV{}
	var bs []Bound
	var argT []*Term
	for i := 0; i < sig.Params().Len(); i++ {
		p := sig.Params().At(i)
		ft.qn++
		if el := loweredElem(p.Type()); el != nil {
			es := ft.w.sortOf(ft.d, el)
			bn := fmt.Sprintf("%s!cn%d", sanitize(p.Name()), ft.qn)
			vn := fmt.Sprintf("%s!cv%d", sanitize(p.Name()), ft.qn)
			bs = append(bs, Bound{bn, SBool}, Bound{vn, es})
			low := &Lowered{isNil: &Term{bn, SBool}, val: &Term{vn, es}, elem: el}
			vars[p.Name()] = SV{Low: low, Ty: p.Type()}
			argT = append(argT, low.isNil, low.val)
			continue
		}
		srt := ft.w.sortOf(ft.d, p.Type())
		bn := fmt.Sprintf("%s!c%d", sanitize(p.Name()), ft.qn)
		bs = append(bs, Bound{bn, srt})
		bt := &Term{bn, srt}
		vars[p.Name()] = SV{T: bt, Ty: p.Type()}
		argT = append(argT, bt)
	}
	for i, fv := range fn.FreeVars {
		vars[fv.Name()] = bindSV(binds[i], fv)
	}
	app := ft.h.fnAppLowered(t, sig, argT)
	rt := sig.Results().At(0).Type()
	vars["result"] = SV{T: app, Ty: rt}
	if n := sig.Results().At(0).Name(); n != "" {
		vars[n] = SV{T: app, Ty: rt}
	}
	env := &SpecEnv{h: ft.h, w: ft.w, pkg: ft.w.pkgOfFunc(fn), vars: vars, st: st, old: st, qn: &ft.qn}
	for i, en := range con.Ensures {
		body, err := env.trBool(en.E)
		if err != nil {
			return fmt.Errorf("ensures[%d] of closure %s: %v", i+1, fn.Name(), err)
		}
		ft.assume(at, Forall(bs, body, []*Term{app}))
	}
	return nil
}

// bindSVAt: as bindSV; a late-bound captured variable denotes its value in state st
func (ft *FuncTr) bindSVAt(st *State, b Val, fv *ssa.FreeVar) SV {
	if b.Ref != nil && b.CellValue {
		return SV{T: ft.localGet(st, b.Ref.alloc), Ty: fv.Type().(*types.Pointer).Elem()}
	}
	return bindSV(b, fv)
}

func bindSV(b Val, fv *ssa.FreeVar) SV {
	ty := fv.Type().(*types.Pointer).Elem()
	if b.CellValue {
		return SV{T: b.T, Ty: ty}
	}
	return SV{Addr: b.T, Ty: ty}
}

func isIterSeq(t types.Type) bool {
	n, ok := t.(*types.Named)
	if !ok {
		if a, ok2 := t.(*types.Alias); ok2 {
			return isIterSeq(types.Unalias(a))
		}
		return false
	}
	o := n.Obj()
	return o != nil && o.Pkg() != nil && o.Pkg().Path() == "iter" && (o.Name() == "Seq" || o.Name() == "Seq2")
}

func (ft *FuncTr) isRangeFuncCall(c *ssa.CallCommon) bool {
	if c.IsInvoke() || c.StaticCallee() != nil {
		return false
	}
	return isIterSeq(c.Value.Type())
}

// varargsElems: for append(s, x1, ..., xn) go/ssa builds a fresh [n]T array holding the xi and slices it;
// returns the xi as read from memory array m, or nil if the argument has another shape.
func (ft *FuncTr) varargsElems(st *State, arg ssa.Value, m *Term) []*Term {
	sl, ok := arg.(*ssa.Slice)
	if !ok || sl.Low != nil || sl.High != nil || sl.Max != nil {
		return nil
	}
	al, ok := sl.X.(*ssa.Alloc)
	if !ok || al.Comment != "varargs" {
		return nil
	}
	at, ok := al.Type().(*types.Pointer).Elem().Underlying().(*types.Array)
	if !ok || at.Len() > 8 || isStructT(at.Elem()) {
		return nil
	}
	pv := ft.val(al)
	if pv.T == nil {
		return nil
	}
	var out []*Term
	for i := int64(0); i < at.Len(); i++ {
		out = append(out, Select(m, PElem(pv.T, IntLit(i))))
	}
	return out
}

// callOrdinal: the 1-based rank, in source order, of call instruction `in` among the calls of this
// function with the same short callee name (for `assert after f#n`).
func (ft *FuncTr) callOrdinal(in ssa.Instruction, cname string) int {
	if cname == "" {
		return 0
	}
	if ft.callOrd == nil {
		ft.callOrd = map[ssa.Instruction]int{}
		byName := map[string][]ssa.Instruction{}
		for _, b := range ft.fn.Blocks {
			for _, i2 := range b.Instrs {
				ci, ok := i2.(ssa.CallInstruction)
				if !ok {
					continue
				}
				c := ci.Common()
				n := ""
				if sc := c.StaticCallee(); sc != nil {
					n = calleeName(sc)
				} else if c.IsInvoke() {
					n = c.Method.Name()
				} else if bi, ok := c.Value.(*ssa.Builtin); ok {
					n = bi.Name()
				} else if fname := fieldFuncName(c.Value); fname != "" {
					n = fname
				}
				if n != "" {
					byName[lastName(n)] = append(byName[lastName(n)], i2)
				}
			}
		}
		for _, l := range byName {
			sort.SliceStable(l, func(x, y int) bool { return l[x].Pos() < l[y].Pos() })
			for k, i2 := range l {
				ft.callOrd[i2] = k + 1
			}
		}
	}
	return ft.callOrd[in]
}
