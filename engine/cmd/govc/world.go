package main

// Loading of the real packages, contract files, stubs; Go type -> SMT sort mapping.

import (
	"sync"
	"fmt"
	"go/ast"
	"go/token"
	"go/types"
	"os"
	"path/filepath"
	"sort"
	"strings"

	"golang.org/x/tools/go/packages"
	"golang.org/x/tools/go/ssa"
	"golang.org/x/tools/go/ssa/ssautil"
)

type World struct {
	mu2 sync.Mutex
	fset    *token.FileSet
	prog    *ssa.Program
	pkgs    map[string]*packages.Package // all, by path
	roots   []*packages.Package
	ssaPkgs map[string]*ssa.Package

	contracts map[string]*Contract // full function name -> contract
	wild      []*Contract          // wildcard stubs (name ends with *)
	preds     map[string]*PredDef  // "pkg\x00name" and "\x00name"
	ufuns     map[string]*UFunDecl
	axioms    []*AxiomDef
	lemmas    []*LemmaDef
	immutable map[string]bool // type strings
	guarded   []*GuardedBy
	usedLemmas map[string]bool // lemmas assumed inside function VCs (apply ...): must be proved in the same run

	specFieldNames map[string]bool       // selector names mentioned in any spec
	ssaFields      map[string]map[int]bool // struct key -> field index
	allFields      map[string]bool         // struct key -> keep all fields
	structs        map[string]*StructInfo
	specFiles      []string

	tparams     map[string]types.Type // type parameters of the generic function being verified
	tsubst      map[string]types.Type // while a generic callee's contract is applied: its type parameters' instances
	writeOnceC  map[*ssa.Global]bool  // cache of writeOnce
	closureAlias map[string]string    // closure contract name -> the closure it was re-bound to (see rebindClosures)
	assumptions map[string]bool // collected textual assumptions for evidence
	errors      []string
}

type StructInfo struct {
	Key    string
	Name   string // SMT datatype name
	Sort   *Sort
	T      *types.Struct
	Fields []int // relevant field indices (into T)
	Decl   string
}

func (w *World) assume(s string) { w.assumptions[s] = true }

func loadWorld(repo string, pkgPaths []string, stubDir string) (*World, error) {
	cfg := &packages.Config{Mode: packages.LoadAllSyntax, Dir: repo, BuildFlags: []string{"-tags=verif"}}
	pkgs, err := packages.Load(cfg, pkgPaths...)
	if err != nil {
		return nil, err
	}
	var errs []string
	packages.Visit(pkgs, nil, func(p *packages.Package) {
		if strings.HasPrefix(p.PkgPath, "go.universe.tf/metallb") {
			for _, e := range p.Errors {
				errs = append(errs, e.Error())
			}
		}
	})
	if len(errs) > 0 {
		return nil, fmt.Errorf("package errors: %s", strings.Join(errs, "; "))
	}
	w := &World{
		pkgs: map[string]*packages.Package{}, ssaPkgs: map[string]*ssa.Package{},
		contracts: map[string]*Contract{}, preds: map[string]*PredDef{}, ufuns: map[string]*UFunDecl{},
		immutable: map[string]bool{}, specFieldNames: map[string]bool{}, ssaFields: map[string]map[int]bool{},
		allFields: map[string]bool{}, structs: map[string]*StructInfo{}, assumptions: map[string]bool{},
	}
	w.roots = pkgs
	if len(pkgs) > 0 {
		w.fset = pkgs[0].Fset
	}
	packages.Visit(pkgs, nil, func(p *packages.Package) { w.pkgs[p.PkgPath] = p })
	prog, _ := ssautil.AllPackages(pkgs, ssa.NaiveForm|ssa.InstantiateGenerics|ssa.GlobalDebug)
	w.prog = prog
	for _, sp := range prog.AllPackages() {
		w.ssaPkgs[sp.Pkg.Path()] = sp
	}
	// Build SSA only for module packages (roots and their metallb deps).
	for path, sp := range w.ssaPkgs {
		if strings.HasPrefix(path, "go.universe.tf/metallb") {
			sp.Build()
		}
	}
	// contract files inside the repo packages
	for path, p := range w.pkgs {
		if !strings.HasPrefix(path, "go.universe.tf/metallb") {
			continue
		}
		for i, f := range p.Syntax {
			fname := p.CompiledGoFiles[i]
			if !strings.HasPrefix(filepath.Base(fname), "zz_verif_contracts") {
				continue
			}
			_ = f
			src, err := os.ReadFile(fname)
			if err != nil {
				return nil, err
			}
			sf, err := parseSpecLines(fname, path, extractSpecLines(string(src)))
			if err != nil {
				return nil, err
			}
			w.specFiles = append(w.specFiles, fname)
			if err := w.addSpecFile(sf); err != nil {
				return nil, err
			}
		}
	}
	// stubs
	if stubDir != "" {
		files, _ := filepath.Glob(filepath.Join(stubDir, "*.spec"))
		sort.Strings(files)
		for _, fname := range files {
			src, err := os.ReadFile(fname)
			if err != nil {
				return nil, err
			}
			sf, err := parseSpecLines(fname, "", extractSpecLines(string(src)))
			if err != nil {
				return nil, err
			}
			for _, c := range sf.Contracts {
				c.Trusted = true
			}
			w.specFiles = append(w.specFiles, fname)
			if err := w.addSpecFile(sf); err != nil {
				return nil, err
			}
		}
	}
	return w, nil
}

func (w *World) addSpecFile(sf *SpecFile) error {
	for _, c := range sf.Contracts {
		full := w.resolveFuncName(c.Pkg, c.FuncName)
		if strings.HasSuffix(full, "*") {
			w.wild = append(w.wild, c)
			c.FuncName = full
			continue
		}
		if _, dup := w.contracts[full]; dup {
			return fmt.Errorf("%s:%d: duplicate contract for %s", c.File, c.Line, full)
		}
		c.FuncName = full
		w.contracts[full] = c
		for _, cl := range c.Requires {
			collectSelNames(cl.E, w.specFieldNames)
		}
		for _, cl := range c.Ensures {
			collectSelNames(cl.E, w.specFieldNames)
		}
		for _, l := range c.Loops {
			for _, cl := range l.Invariants {
				collectSelNames(cl.E, w.specFieldNames)
			}
		}
		if c.Denotes != nil {
			collectSelNames(c.Denotes, w.specFieldNames)
		}
		for _, a := range c.Anchored {
			collectSelNames(a.C.E, w.specFieldNames)
		}
	}
	for _, p := range sf.Preds {
		w.preds[p.Pkg+"\x00"+p.Name] = p
		if _, ok := w.preds["\x00"+p.Name]; !ok {
			w.preds["\x00"+p.Name] = p
		}
		collectSelNames(p.Body, w.specFieldNames)
	}
	for _, u := range sf.UFuns {
		w.ufuns[u.Name] = u
	}
	for _, a := range sf.Axioms {
		collectSelNames(a.E, w.specFieldNames)
	}
	for _, l := range sf.Lemmas {
		collectSelNames(l.E, w.specFieldNames)
	}
	w.axioms = append(w.axioms, sf.Axioms...)
	w.lemmas = append(w.lemmas, sf.Lemmas...)
	for _, im := range sf.Immutable {
		w.immutable[im] = true
	}
	w.guarded = append(w.guarded, sf.Guarded...)
	return nil
}

// resolveFuncName turns "poolFor" / "(*Allocator).Assign" / "(Port).String" written in a
// package's contract file into ssa's full function name. Stub files give full names already.
func (w *World) resolveFuncName(pkg, name string) string {
	name = strings.TrimSpace(name)
	if pkg == "" || strings.Contains(name, "/") || strings.HasPrefix(name, "(*"+pkg) {
		return name
	}
	if strings.HasPrefix(name, "(*") {
		return "(*" + pkg + "." + name[2:]
	}
	if strings.HasPrefix(name, "(") {
		// a receiver that is not a type of the package (e.g. a type parameter) stays as written
		if i := strings.Index(name, ")"); i > 0 {
			tn := name[1:i]
			if k := strings.Index(tn, "["); k > 0 {
				tn = tn[:k]
			}
			if p := w.pkgs[pkg]; p != nil && p.Types != nil && p.Types.Scope().Lookup(tn) == nil {
				return name
			}
		}
		return "(" + pkg + "." + name[1:]
	}
	// a dotted name whose head is an imported package (stubs in package files) stays
	return pkg + "." + name
}

func collectSelNames(e Expr, out map[string]bool) {
	switch x := e.(type) {
	case *ESel:
		out[x.Name] = true
		collectSelNames(x.X, out)
	case *EUnary:
		collectSelNames(x.X, out)
	case *EBinary:
		collectSelNames(x.X, out)
		collectSelNames(x.Y, out)
	case *ECall:
		collectSelNames(x.Fun, out)
		for _, a := range x.Args {
			collectSelNames(a, out)
		}
	case *EIndex:
		collectSelNames(x.X, out)
		collectSelNames(x.I, out)
	case *ESlice:
		collectSelNames(x.X, out)
		if x.Lo != nil {
			collectSelNames(x.Lo, out)
		}
		if x.Hi != nil {
			collectSelNames(x.Hi, out)
		}
	case *EQuant:
		collectSelNames(x.Body, out)
		for _, tr := range x.Triggers {
			for _, t := range tr {
				collectSelNames(t, out)
			}
		}
	case *EOld:
		collectSelNames(x.X, out)
	case *ELet:
		collectSelNames(x.Val, out)
		collectSelNames(x.Body, out)
	}
}

// contractFor finds the contract for a function (by ssa full name).
func (w *World) contractFor(full string) *Contract {
	if c, ok := w.contracts[full]; ok {
		return c
	}
	var best *Contract
	for _, c := range w.wild {
		pre := strings.TrimSuffix(c.FuncName, "*")
		if strings.HasPrefix(full, pre) {
			if best == nil || len(c.FuncName) > len(best.FuncName) {
				best = c
			}
		}
	}
	return best
}

// ---------- struct relevance pre-pass ----------

func structKey(t types.Type) string {
	return types.TypeString(types.Unalias(t), nil)
}

func (w *World) markSSAField(t types.Type, idx int) {
	// t is the struct type (possibly named)
	k := structKey(t)
	m := w.ssaFields[k]
	if m == nil {
		m = map[int]bool{}
		w.ssaFields[k] = m
	}
	m[idx] = true
}

func derefType(t types.Type) types.Type {
	if p, ok := t.Underlying().(*types.Pointer); ok {
		return p.Elem()
	}
	if tp, ok := t.(*types.TypeParam); ok {
		if el := typeParamPointerElem(tp); el != nil {
			return el
		}
	}
	return t
}

// typeParamPointerElem: T if the type parameter's constraint has the single core type *T.
func typeParamPointerElem(tp *types.TypeParam) types.Type {
	iface, ok := tp.Constraint().Underlying().(*types.Interface)
	if !ok {
		return nil
	}
	var found types.Type
	for i := 0; i < iface.NumEmbeddeds(); i++ {
		et := iface.EmbeddedType(i)
		switch e := et.(type) {
		case *types.Pointer:
			found = e.Elem()
		case *types.Union:
			if e.Len() == 1 {
				if p, ok := e.Term(0).Type().(*types.Pointer); ok {
					found = p.Elem()
				}
			}
		}
	}
	return found
}

func (w *World) prepassFunc(fn *ssa.Function) {
	for _, b := range fn.Blocks {
		for _, in := range b.Instrs {
			switch x := in.(type) {
			case *ssa.FieldAddr:
				w.markSSAField(derefType(x.X.Type()), x.Field)
			case *ssa.Field:
				w.markSSAField(x.X.Type(), x.Field)
			case *ssa.BinOp:
				if x.Op == token.EQL || x.Op == token.NEQ {
					w.markAll(x.X.Type())
				}
			case *ssa.MakeInterface:
				w.markAll(x.X.Type())
			case *ssa.MakeMap:
				if mt, ok := x.Type().Underlying().(*types.Map); ok {
					w.markAll(mt.Key())
				}
			}
		}
	}
	for _, an := range fn.AnonFuncs {
		w.prepassFunc(an)
	}
}

func (w *World) markAll(t types.Type) {
	if _, ok := t.Underlying().(*types.Struct); ok {
		k := structKey(t)
		if w.allFields[k] {
			return
		}
		w.allFields[k] = true
		st := t.Underlying().(*types.Struct)
		for i := 0; i < st.NumFields(); i++ {
			w.markAll(st.Field(i).Type())
		}
	}
	if a, ok := t.Underlying().(*types.Array); ok {
		w.markAll(a.Elem())
	}
}

// ---------- sorts ----------

func (w *World) structInfo(t types.Type) *StructInfo {
	t = types.Unalias(t)
	k := structKey(t)
	if si, ok := w.structs[k]; ok {
		return si
	}
	st := t.Underlying().(*types.Struct)
	si := &StructInfo{Key: k, T: st}
	si.Name = "DT_" + sanitize(k)
	if len(si.Name) > 80 {
		si.Name = fmt.Sprintf("%s_%d", si.Name[:60], len(w.structs))
	}
	si.Sort = &Sort{Name: si.Name}
	w.structs[k] = si
	isMapKeyish := w.allFields[k]
	for i := 0; i < st.NumFields(); i++ {
		f := st.Field(i)
		if isMapKeyish || f.Embedded() || w.specFieldNames[f.Name()] || w.ssaFields[k][i] {
			// skip sync/noCopy style fields with no content? keep simple: include
			si.Fields = append(si.Fields, i)
		}
	}
	return si
}

func (si *StructInfo) has(idx int) bool {
	for _, f := range si.Fields {
		if f == idx {
			return true
		}
	}
	return false
}

func (si *StructInfo) sel(idx int) string {
	return fmt.Sprintf("%s.%s", si.Name, sanitize(si.T.Field(idx).Name()))
}

// declares the datatype (after inner sorts)
func (w *World) declStruct(d *Decls, si *StructInfo) {
	d.mu.Lock()
	seen := d.seen[si.Name]
	d.mu.Unlock()
	if seen {
		return
	}
	var b strings.Builder
	if len(si.Fields) == 0 {
		fmt.Fprintf(&b, "(declare-datatypes ((%s 0)) (((mk_%s))))", si.Name, si.Name)
	} else {
		fmt.Fprintf(&b, "(declare-datatypes ((%s 0)) (((mk_%s", si.Name, si.Name)
		for _, i := range si.Fields {
			fs := w.sortOf(d, si.T.Field(i).Type())
			fmt.Fprintf(&b, " (%s %s)", si.sel(i), fs.Name)
		}
		b.WriteString("))))")
	}
	d.Raw(si.Name, b.String())
}

func (w *World) sortOf(d *Decls, t types.Type) *Sort {
	switch x := t.(type) {
	case *types.Named:
		if _, ok := x.Underlying().(*types.Struct); ok {
			si := w.structInfo(x)
			w.declStruct(d, si)
			return si.Sort
		}
		return w.sortOf(d, x.Underlying())
	case *types.Alias:
		return w.sortOf(d, types.Unalias(x))
	case *types.Basic:
		switch {
		case x.Info()&types.IsBoolean != 0:
			return SBool
		case x.Info()&types.IsInteger != 0:
			return SInt
		case x.Info()&types.IsString != 0:
			return SStr
		case x.Info()&types.IsFloat != 0:
			return SReal
		case x.Kind() == types.UnsafePointer || x.Kind() == types.UntypedNil:
			return SPtr
		}
	case *types.Pointer, *types.Map, *types.Chan:
		return SPtr
	case *types.Signature:
		return SFn
	case *types.Interface:
		return SIfc
	case *types.Slice:
		return SSlc
	case *types.Array:
		return SArray(SInt, w.sortOf(d, x.Elem()))
	case *types.Struct:
		si := w.structInfo(x)
		w.declStruct(d, si)
		return si.Sort
	case *types.TypeParam:
		if t := w.tsubst[x.Obj().Name()]; t != nil {
			return w.sortOf(d, t) // contract of a generic function applied at an instantiated call site
		}
		if el := typeParamPointerElem(x); el != nil {
			return SPtr
		}
		n := "TP_" + sanitize(x.Obj().Name())
		d.Raw(n, fmt.Sprintf("(declare-sort %s 0)", n))
		return namedSort(n)
	case *types.Tuple:
		if x.Len() == 0 {
			return SUnit
		}
	}
	panic(unsupported(fmt.Sprintf("type %s (%T)", t, t)))
}

type unsupportedErr string

func unsupported(s string) unsupportedErr { return unsupportedErr(s) }
func (u unsupportedErr) Error() string    { return "unsupported: " + string(u) }

// intRange gives the inclusive range of an integer type, ok=false if not an integer.
func intRange(t types.Type) (lo, hi string, ok bool) {
	b, isb := t.Underlying().(*types.Basic)
	if !isb || b.Info()&types.IsInteger == 0 {
		return "", "", false
	}
	switch b.Kind() {
	case types.Int8:
		return "-128", "127", true
	case types.Int16:
		return "-32768", "32767", true
	case types.Int32:
		return "-2147483648", "2147483647", true
	case types.Int, types.Int64, types.UntypedInt, types.UntypedRune:
		return "-9223372036854775808", "9223372036854775807", true
	case types.Uint8:
		return "0", "255", true
	case types.Uint16:
		return "0", "65535", true
	case types.Uint32:
		return "0", "4294967295", true
	case types.Uint, types.Uint64, types.Uintptr:
		return "0", "18446744073709551615", true
	}
	return "", "", false
}

func intModulus(t types.Type) string {
	b, _ := t.Underlying().(*types.Basic)
	switch b.Kind() {
	case types.Int8, types.Uint8:
		return "256"
	case types.Int16, types.Uint16:
		return "65536"
	case types.Int32, types.Uint32:
		return "4294967296"
	}
	return "18446744073709551616"
}

// rangeAssume returns the typing constraint of term t of Go type ty (true if none).
func (w *World) rangeAssume(d *Decls, t *Term, ty types.Type) *Term {
	if lo, hi, ok := intRange(ty); ok {
		return And(Le(BigLit(lo), t), Le(t, BigLit(hi)))
	}
	switch ty.Underlying().(type) {
	case *types.Slice:
		return And(Le(IntLit(0), SlcLen(t)), Le(SlcLen(t), SlcCap(t)), Le(IntLit(0), SlcOff(t)),
			Le(SlcCap(t), BigLit("4611686018427387903")),
			Implies(IsNil(SlcArr(t)), Eq(SlcCap(t), IntLit(0))))
	}
	return TTrue
}

// zero value of a Go type
func (w *World) zero(d *Decls, ty types.Type) *Term {
	s := w.sortOf(d, ty)
	switch s {
	case SBool:
		return TFalse
	case SInt:
		return IntLit(0)
	case SReal:
		return &Term{"0.0", SReal}
	case SStr:
		return &Term{"str_empty", SStr}
	case SPtr:
		return TNil
	case SSlc:
		return TNilSlice
	case SIfc:
		return &Term{"NilI", SIfc}
	case SFn:
		return d.Const("fn_nil", SFn)
	}
	if s.IsArray() {
		at := ty.Underlying().(*types.Array)
		return ConstArray(s, w.zero(d, at.Elem()))
	}
	if st, ok := ty.Underlying().(*types.Struct); ok {
		si := w.structInfo(ty)
		var args []*Term
		for _, i := range si.Fields {
			args = append(args, w.zero(d, st.Field(i).Type()))
		}
		return mk(s, "mk_"+si.Name, args...)
	}
	if _, ok := ty.(*types.TypeParam); ok {
		return d.Const("zero_"+s.Name, s)
	}
	panic(unsupported("zero of " + ty.String()))
}

// ---------- heap array naming ----------

// fieldArr returns name and sort of the heap array for leaf field idx of struct type t.
func (w *World) fieldArrName(t types.Type, idx int) string {
	si := w.structInfo(t)
	return "F_" + strings.TrimPrefix(si.Name, "DT_") + "." + sanitize(si.T.Field(idx).Name())
}

func memArrName(s *Sort) string { return "M_" + s.Mangle() }

func mapArrNames(k, v *Sort) (dom, val, card string) {
	base := k.Mangle() + "_" + v.Mangle()
	return "MD_" + base, "MV_" + base, "MC_" + base
}

// ---------- helpers for AST lookups ----------

func (w *World) pkgOfFunc(fn *ssa.Function) *packages.Package {
	if fn.Pkg != nil {
		return w.pkgs[fn.Pkg.Pkg.Path()]
	}
	if fn.Parent() != nil {
		return w.pkgOfFunc(fn.Parent())
	}
	if o := fn.Origin(); o != nil {
		return w.pkgOfFunc(o)
	}
	return nil
}

// findImport resolves a package name as imported in any file of pkg.
func (w *World) findImport(pkg *packages.Package, name string) *types.Package {
	if pkg == nil {
		return nil
	}
	for _, f := range pkg.Syntax {
		for _, imp := range f.Imports {
			path := strings.Trim(imp.Path.Value, `"`)
			ip := pkg.Imports[path]
			if ip == nil || ip.Types == nil {
				continue
			}
			n := ip.Types.Name()
			if imp.Name != nil {
				n = imp.Name.Name
			}
			if n == name {
				return ip.Types
			}
		}
	}
	// fall back: any loaded package with that name
	var cands []*types.Package
	for _, p := range w.pkgs {
		if p.Types != nil && p.Types.Name() == name {
			cands = append(cands, p.Types)
		}
	}
	if len(cands) == 1 {
		return cands[0]
	}
	if len(cands) > 1 {
		sort.Slice(cands, func(i, j int) bool { return len(cands[i].Path()) < len(cands[j].Path()) })
		return cands[0]
	}
	return nil
}

// evalType parses a Go type expression in the scope of pkg.
func (w *World) evalType(pkg *packages.Package, text string) (types.Type, error) {
	text = strings.TrimSpace(text)
	if w.tparams != nil {
		if t, ok := w.tparams[text]; ok {
			return t, nil
		}
		if strings.HasPrefix(text, "[]") {
			if t, ok := w.tparams[text[2:]]; ok {
				return types.NewSlice(t), nil
			}
		}
		if strings.HasPrefix(text, "*") {
			if t, ok := w.tparams[text[1:]]; ok {
				return types.NewPointer(t), nil
			}
		}
	}
	if pkg != nil {
		// qualified names need the importing file scope: try each file's scope position
		for _, f := range pkg.Syntax {
			tv, err := types.Eval(w.fset, pkg.Types, f.End()-1, text)
			if err == nil && tv.IsType() {
				return tv.Type, nil
			}
		}
		tv, err := types.Eval(w.fset, pkg.Types, token.NoPos, text)
		if err == nil && tv.IsType() {
			return tv.Type, nil
		}
	}
	// fully manual for qualified names: pkgname.Type with pointer/slice prefixes
	return w.evalTypeManual(pkg, text)
}

func (w *World) evalTypeManual(pkg *packages.Package, text string) (types.Type, error) {
	switch {
	case strings.HasPrefix(text, "*"):
		t, err := w.evalTypeManual(pkg, text[1:])
		if err != nil {
			return nil, err
		}
		return types.NewPointer(t), nil
	case strings.HasPrefix(text, "[]"):
		t, err := w.evalTypeManual(pkg, text[2:])
		if err != nil {
			return nil, err
		}
		return types.NewSlice(t), nil
	case strings.HasPrefix(text, "map["):
		depth := 0
		for i := 3; i < len(text); i++ {
			if text[i] == '[' {
				depth++
			}
			if text[i] == ']' {
				depth--
				if depth == 0 {
					k, err := w.evalTypeManual(pkg, text[4:i])
					if err != nil {
						return nil, err
					}
					v, err := w.evalTypeManual(pkg, text[i+1:])
					if err != nil {
						return nil, err
					}
					return types.NewMap(k, v), nil
				}
			}
		}
	}
	if i := strings.LastIndex(text, "."); i > 0 {
		pn, tn := text[:i], text[i+1:]
		var tp *types.Package
		if p, ok := w.pkgs[pn]; ok {
			tp = p.Types
		} else {
			tp = w.findImport(pkg, pn)
		}
		if tp != nil {
			if o := tp.Scope().Lookup(tn); o != nil {
				if tn, ok := o.(*types.TypeName); ok {
					return tn.Type(), nil
				}
			}
		}
	} else {
		if o := types.Universe.Lookup(text); o != nil {
			if tn, ok := o.(*types.TypeName); ok {
				return tn.Type(), nil
			}
		}
		if pkg != nil {
			if o := pkg.Types.Scope().Lookup(text); o != nil {
				if tn, ok := o.(*types.TypeName); ok {
					return tn.Type(), nil
				}
			}
		}
	}
	return nil, fmt.Errorf("cannot resolve type %q", text)
}

// funcDeclOf finds the AST of a function (for loop ordinals and scopes).
func (w *World) funcSyntax(fn *ssa.Function) ast.Node {
	return fn.Syntax()
}

var namedSorts = map[string]*Sort{}

func namedSort(n string) *Sort {
	if s, ok := namedSorts[n]; ok {
		return s
	}
	s := &Sort{Name: n}
	namedSorts[n] = s
	return s
}

func (w *World) noteUsedLemma(n string) {
	w.mu2.Lock()
	defer w.mu2.Unlock()
	if w.usedLemmas == nil {
		w.usedLemmas = map[string]bool{}
	}
	w.usedLemmas[n] = true
}

// writeOnce: the package variable is stored to only by its package's init functions (checked over all function bodies of
// its package, closures included): its value never changes afterwards.
func (w *World) writeOnce(g *ssa.Global) bool {
	if w.writeOnceC == nil {
		w.writeOnceC = map[*ssa.Global]bool{}
	}
	if v, ok := w.writeOnceC[g]; ok {
		return v
	}
	res := true
	pkg := g.Pkg
	if pkg == nil || pkg.Pkg == nil || !strings.HasPrefix(pkg.Pkg.Path(), "go.universe.tf/metallb") {
		// only variables of this module are considered (every loaded package of the module is scanned below)
		w.writeOnceC[g] = false
		return false
	}
	var scan func(f *ssa.Function)
	scan = func(f *ssa.Function) {
		if f == nil || !res {
			return
		}
		isInit := f.Name() == "init" || strings.HasPrefix(f.Name(), "init#")
		for _, b := range f.Blocks {
			for _, in := range b.Instrs {
				switch x := in.(type) {
				case *ssa.Store:
					if x.Addr == ssa.Value(g) && !isInit {
						res = false
					}
				default:
					// the address escaping (passed to a call, stored, converted) could allow other writes
					if !isInit {
						for _, op := range in.Operands(nil) {
							if op != nil && *op == ssa.Value(g) {
								if u, ok := in.(*ssa.UnOp); ok && u.Op == token.MUL {
									continue
								}
								res = false
							}
						}
					}
				}
			}
		}
		for _, a := range f.AnonFuncs {
			scan(a)
		}
	}
	var paths []string
	for path := range w.ssaPkgs {
		if strings.HasPrefix(path, "go.universe.tf/metallb") {
			paths = append(paths, path)
		}
	}
	sort.Strings(paths)
	for _, path := range paths {
		sp := w.ssaPkgs[path]
		if path != pkg.Pkg.Path() && !g.Object().Exported() {
			continue // an unexported variable can only be named by its own package
		}
		for _, m := range sp.Members {
			switch x := m.(type) {
			case *ssa.Function:
				scan(x)
			case *ssa.Type:
				for _, t := range []types.Type{x.Type(), types.NewPointer(x.Type())} {
					ms := w.prog.MethodSets.MethodSet(t)
					for i := 0; i < ms.Len(); i++ {
						scan(w.prog.MethodValue(ms.At(i)))
					}
				}
			}
		}
	}
	w.writeOnceC[g] = res
	return res
}

// rebindClosures: a closure contract is keyed by the closure's ordinal inside its parent (f$2). When it declares the
// closure's parameter names (`params i, j`) and the closure with that ordinal does not have them any more, the unique
// sibling closure (any depth) that has them and no contract of its own takes the contract.
func (w *World) rebindClosures(idx map[string]*ssa.Function) {
	w.closureAlias = map[string]string{}
	names := func(f *ssa.Function) []string {
		var out []string
		for _, p := range f.Params {
			out = append(out, p.Name())
		}
		return out
	}
	same := func(a, b []string) bool {
		if len(a) != len(b) {
			return false
		}
		for i := range a {
			if a[i] != b[i] {
				return false
			}
		}
		return true
	}
	var keys []string
	for n, c := range w.contracts {
		if len(c.Params) > 0 && strings.Contains(n, "$") {
			keys = append(keys, n)
		}
	}
	sort.Strings(keys)
	for _, n := range keys {
		c := w.contracts[n]
		if f := idx[n]; f != nil && same(names(f), c.Params) {
			continue
		}
		parentName := n[:strings.Index(n, "$")]
		parent := idx[parentName]
		if parent == nil {
			continue
		}
		var cands []*ssa.Function
		var walk func(f *ssa.Function)
		walk = func(f *ssa.Function) {
			for _, a := range f.AnonFuncs {
				if _, has := w.contracts[a.String()]; (!has || a.String() == n) && same(names(a), c.Params) {
					cands = append(cands, a)
				}
				walk(a)
			}
		}
		walk(parent)
		if len(cands) == 1 && cands[0].String() != n {
			delete(w.contracts, n)
			w.contracts[cands[0].String()] = c
			w.closureAlias[n] = cands[0].String()
		}
	}
}
