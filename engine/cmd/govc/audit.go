package main

// Audit of nondeterminism sources (C18): every map range, select, go statement and call into time/rand
// in the module-internal static call graph below the given roots.

import (
	"fmt"
	"go/types"
	"sort"
	"strings"

	"golang.org/x/tools/go/ssa"
)

type NondetSource struct {
	Func string
	Kind string
	Pos  string
}

func auditNondet(w *World, roots []*ssa.Function) []NondetSource {
	seen := map[*ssa.Function]bool{}
	var out []NondetSource
	var visit func(f *ssa.Function)
	visit = func(f *ssa.Function) {
		if f == nil || seen[f] || len(f.Blocks) == 0 {
			return
		}
		pkg := w.pkgOfFunc(f)
		if pkg == nil || !strings.HasPrefix(pkg.PkgPath, "go.universe.tf/metallb") {
			return
		}
		seen[f] = true
		for _, b := range f.Blocks {
			for _, in := range b.Instrs {
				pos := ""
				if in.Pos().IsValid() {
					p := w.fset.Position(in.Pos())
					pos = fmt.Sprintf("%s:%d", p.Filename, p.Line)
				}
				switch x := in.(type) {
				case *ssa.Range:
					if _, ok := x.X.Type().Underlying().(*types.Map); ok {
						out = append(out, NondetSource{shortFuncName(f), "map range", pos})
					}
				case *ssa.Select:
					out = append(out, NondetSource{shortFuncName(f), "select", pos})
				case *ssa.Go:
					out = append(out, NondetSource{shortFuncName(f), "go statement", pos})
				case *ssa.MakeClosure:
					visit(x.Fn.(*ssa.Function))
				}
				if ci, ok := in.(ssa.CallInstruction); ok {
					c := ci.Common()
					if callee := c.StaticCallee(); callee != nil {
						cp := ""
						if callee.Pkg != nil {
							cp = callee.Pkg.Pkg.Path()
						}
						if cp == "time" || cp == "math/rand" || cp == "math/rand/v2" || cp == "crypto/rand" {
							out = append(out, NondetSource{shortFuncName(f), "call " + callee.String(), pos})
						}
						if callee.Name() == "Keys" && cp == "maps" {
							out = append(out, NondetSource{shortFuncName(f), "maps.Keys iteration", pos})
						}
						visit(callee)
					}
					for _, a := range c.Args {
						if fn, ok := a.(*ssa.Function); ok {
							visit(fn)
						}
					}
				}
			}
		}
	}
	for _, r := range roots {
		visit(r)
	}
	sort.Slice(out, func(i, j int) bool {
		if out[i].Func != out[j].Func {
			return out[i].Func < out[j].Func
		}
		return out[i].Pos < out[j].Pos
	})
	return out
}
