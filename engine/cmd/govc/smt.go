package main

// SMT term construction, declarations and solver invocation.

import (
	"bytes"
	"context"
	"fmt"
	"os"
	"os/exec"
	"sort"
	"strings"
	"sync"
	"time"
)

type Sort struct {
	Name string // SMT-LIB rendering, e.g. "Int", "(Array Ptr Int)"
	K, V *Sort  // for arrays
}

var (
	SBool = &Sort{Name: "Bool"}
	SInt  = &Sort{Name: "Int"}
	SReal = &Sort{Name: "Real"}
	SStr  = &Sort{Name: "Str"}
	SPtr  = &Sort{Name: "Ptr"}
	SSlc  = &Sort{Name: "Slice"}
	SIfc  = &Sort{Name: "Iface"}
	SFn   = &Sort{Name: "Fn"}
	SUnit = &Sort{Name: "Unit"}
)

var arraySorts = map[string]*Sort{}
var arrayMu sync.Mutex

func SArray(k, v *Sort) *Sort {
	arrayMu.Lock()
	defer arrayMu.Unlock()
	n := "(Array " + k.Name + " " + v.Name + ")"
	if s, ok := arraySorts[n]; ok {
		return s
	}
	s := &Sort{Name: n, K: k, V: v}
	arraySorts[n] = s
	return s
}

func (s *Sort) IsArray() bool { return s.K != nil }

// mangled name usable inside identifiers
func (s *Sort) Mangle() string {
	r := strings.NewReplacer("(", "", ")", "", " ", "_")
	return r.Replace(s.Name)
}

type Term struct {
	S    string
	Sort *Sort
}

func (t *Term) String() string { return t.S }

func mk(sort *Sort, op string, args ...*Term) *Term {
	if len(args) == 0 {
		return &Term{op, sort}
	}
	var b strings.Builder
	b.WriteByte('(')
	b.WriteString(op)
	for _, a := range args {
		b.WriteByte(' ')
		b.WriteString(a.S)
	}
	b.WriteByte(')')
	return &Term{b.String(), sort}
}

var (
	TTrue  = &Term{"true", SBool}
	TFalse = &Term{"false", SBool}
	TNil   = &Term{"Nil", SPtr}
)

func IntLit(n int64) *Term {
	if n < 0 {
		if n == -9223372036854775808 {
			return &Term{"(- 9223372036854775808)", SInt}
		}
		return &Term{fmt.Sprintf("(- %d)", -n), SInt}
	}
	return &Term{fmt.Sprintf("%d", n), SInt}
}

func BigLit(s string) *Term {
	if strings.HasPrefix(s, "-") {
		return &Term{"(- " + s[1:] + ")", SInt}
	}
	return &Term{s, SInt}
}

func And(ts ...*Term) *Term {
	var out []*Term
	for _, t := range ts {
		if t == nil || t.S == "true" {
			continue
		}
		if t.S == "false" {
			return TFalse
		}
		out = append(out, t)
	}
	if len(out) == 0 {
		return TTrue
	}
	if len(out) == 1 {
		return out[0]
	}
	return mk(SBool, "and", out...)
}

func Or(ts ...*Term) *Term {
	var out []*Term
	for _, t := range ts {
		if t == nil || t.S == "false" {
			continue
		}
		if t.S == "true" {
			return TTrue
		}
		out = append(out, t)
	}
	if len(out) == 0 {
		return TFalse
	}
	if len(out) == 1 {
		return out[0]
	}
	return mk(SBool, "or", out...)
}

func Not(t *Term) *Term {
	if t.S == "true" {
		return TFalse
	}
	if t.S == "false" {
		return TTrue
	}
	if strings.HasPrefix(t.S, "(not ") {
		return &Term{t.S[5 : len(t.S)-1], SBool}
	}
	return mk(SBool, "not", t)
}

func Implies(a, b *Term) *Term {
	if a.S == "true" {
		return b
	}
	if a.S == "false" || b.S == "true" {
		return TTrue
	}
	return mk(SBool, "=>", a, b)
}

func Eq(a, b *Term) *Term {
	if a.S == b.S {
		return TTrue
	}
	return mk(SBool, "=", a, b)
}

func Ite(c, a, b *Term) *Term {
	if c.S == "true" {
		return a
	}
	if c.S == "false" {
		return b
	}
	if a.S == b.S {
		return a
	}
	return mk(a.Sort, "ite", c, a, b)
}

func Select(a, i *Term) *Term {
	if a.Sort.V == nil {
		panic("select on non-array " + a.S + " : " + a.Sort.Name)
	}
	// select(store(b, i, v), i) = v
	if b, j, v, ok := splitStore(a.S); ok && j == i.S {
		_ = b
		return &Term{v, a.Sort.V}
	}
	// select(const(v), i) = v (cvc5 rejects constant arrays whose default is not a value, e.g. an uninterpreted constant)
	if pre := "((as const " + a.Sort.Name + ") "; strings.HasPrefix(a.S, pre) && strings.HasSuffix(a.S, ")") {
		return &Term{a.S[len(pre) : len(a.S)-1], a.Sort.V}
	}
	return mk(a.Sort.V, "select", a, i)
}

func Store(a, i, v *Term) *Term {
	if a.Sort.V == nil {
		panic("store on non-array " + a.S)
	}
	// store(store(b, i, _), i, v) = store(b, i, v)
	if b, j, _, ok := splitStore(a.S); ok && j == i.S {
		return mk(a.Sort, "store", &Term{b, a.Sort}, i, v)
	}
	return mk(a.Sort, "store", a, i, v)
}

// splitStore parses "(store A I V)" into its three arguments.
func splitStore(s string) (a, i, v string, ok bool) {
	if !strings.HasPrefix(s, "(store ") {
		return
	}
	args := splitArgs(s[7 : len(s)-1])
	if len(args) != 3 {
		return
	}
	return args[0], args[1], args[2], true
}

func splitArgs(s string) []string {
	var out []string
	depth := 0
	start := 0
	for k := 0; k < len(s); k++ {
		switch s[k] {
		case '(':
			depth++
		case ')':
			depth--
		case ' ':
			if depth == 0 {
				if k > start {
					out = append(out, s[start:k])
				}
				start = k + 1
			}
		}
	}
	if start < len(s) {
		out = append(out, s[start:])
	}
	return out
}

func ConstArray(s *Sort, v *Term) *Term {
	return &Term{"((as const " + s.Name + ") " + v.S + ")", s}
}

func Add(a, b *Term) *Term { return mk(SInt, "+", a, b) }
func Sub(a, b *Term) *Term { return mk(SInt, "-", a, b) }
func Le(a, b *Term) *Term {
	if x, ok := litVal(a); ok {
		if y, ok := litVal(b); ok {
			if x <= y {
				return TTrue
			}
			return TFalse
		}
	}
	return mk(SBool, "<=", a, b)
}
func Lt(a, b *Term) *Term {
	if x, ok := litVal(a); ok {
		if y, ok := litVal(b); ok {
			if x < y {
				return TTrue
			}
			return TFalse
		}
	}
	return mk(SBool, "<", a, b)
}

func litVal(t *Term) (int64, bool) {
	s := t.S
	neg := false
	if strings.HasPrefix(s, "(- ") && strings.HasSuffix(s, ")") {
		neg = true
		s = s[3 : len(s)-1]
	}
	if len(s) == 0 || len(s) > 18 {
		return 0, false
	}
	var v int64
	for _, c := range s {
		if c < '0' || c > '9' {
			return 0, false
		}
		v = v*10 + int64(c-'0')
	}
	if neg {
		v = -v
	}
	return v, true
}

type Bound struct {
	Name string
	Sort *Sort
}

func Forall(vs []Bound, body *Term, pats ...[]*Term) *Term { return quant("forall", vs, body, pats) }
func Exists(vs []Bound, body *Term, pats ...[]*Term) *Term { return quant("exists", vs, body, pats) }

func quant(q string, vs []Bound, body *Term, pats [][]*Term) *Term {
	if len(vs) == 0 {
		return body
	}
	var b strings.Builder
	b.WriteString("(" + q + " (")
	for _, v := range vs {
		fmt.Fprintf(&b, "(%s %s)", v.Name, v.Sort.Name)
	}
	b.WriteString(") ")
	if len(pats) > 0 {
		b.WriteString("(! ")
		b.WriteString(body.S)
		for _, p := range pats {
			b.WriteString(" :pattern (")
			for i, t := range p {
				if i > 0 {
					b.WriteByte(' ')
				}
				b.WriteString(t.S)
			}
			b.WriteString(")")
		}
		b.WriteString(")")
	} else {
		b.WriteString(body.S)
	}
	b.WriteString(")")
	return &Term{b.String(), SBool}
}

// ---- Pointer algebra ----

func PObj(id *Term) *Term       { return mk(SPtr, "Loc", id, &Term{"Root", nil}) }
func PFld(p *Term, f int) *Term { return mk(SPtr, "Fld", p, IntLit(int64(f))) }
func PElem(p, i *Term) *Term    { return mk(SPtr, "Elem", p, i) }
func PObjID(p *Term) *Term      { return mk(SInt, "obj", p) }
func IsNil(p *Term) *Term       { return Eq(p, TNil) }

// ---- Slices ----
func SlcMk(arr, off, ln, cp *Term) *Term { return mk(SSlc, "mk_slice", arr, off, ln, cp) }
func SlcArr(s *Term) *Term               { return mk(SPtr, "s_arr", s) }
func SlcOff(s *Term) *Term               { return mk(SInt, "s_off", s) }
func SlcLen(s *Term) *Term               { return mk(SInt, "s_len", s) }
func SlcCap(s *Term) *Term               { return mk(SInt, "s_cap", s) }
func SlcElemAddr(s, i *Term) *Term       { return mk(SPtr, "s_elem", s, i) }

var TNilSlice = &Term{"(mk_slice Nil 0 0 0)", SSlc}

// ---- Preamble ----

const preamble = `(set-option :produce-models true)
(set-logic ALL)
(declare-sort Str 0)
(declare-sort Fn 0)
(declare-datatypes ((Path 0)) (((Root) (PF (pf_base Path) (pf_f Int)) (PE (pe_base Path) (pe_i Int)))))
(declare-datatypes ((Ptr 0)) (((Nil) (Loc (obj Int) (path Path)))))
(define-fun Fld ((p Ptr) (f Int)) Ptr (Loc (obj p) (PF (path p) f)))
(define-fun Elem ((p Ptr) (i Int)) Ptr (Loc (obj p) (PE (path p) i)))
(declare-datatypes ((Slice 0)) (((mk_slice (s_arr Ptr) (s_off Int) (s_len Int) (s_cap Int)))))
(declare-fun s_elem (Slice Int) Ptr)
(declare-datatypes ((Iface 0)) (((NilI) (MkI (i_tag Int) (i_val Int)))))
(declare-fun str_len (Str) Int)
(declare-fun str_cat (Str Str) Str)
(declare-fun str_lt (Str Str) Bool)
(declare-const str_empty Str)
(assert (= (str_len str_empty) 0))
`

const axStrLen = `(assert (forall ((s Str)) (! (>= (str_len s) 0) :pattern ((str_len s)))))
(assert (forall ((s Str)) (! (=> (= (str_len s) 0) (= s str_empty)) :pattern ((str_len s)))))
`
const axSElem = `(assert (forall ((s Slice) (i Int)) (! (= (s_elem s i) (Elem (s_arr s) (+ (s_off s) i))) :pattern ((s_elem s i)))))
`
const axStrCat = `(assert (forall ((a Str) (b Str)) (! (= (str_len (str_cat a b)) (+ (str_len a) (str_len b))) :pattern ((str_cat a b)))))
(assert (forall ((a Str)) (! (= (str_cat a str_empty) a) :pattern ((str_cat a str_empty)))))
(assert (forall ((a Str)) (! (= (str_cat str_empty a) a) :pattern ((str_cat str_empty a)))))
`
const axStrLt = `(assert (forall ((a Str)) (! (not (str_lt a a)) :pattern ((str_lt a a)))))
(assert (forall ((a Str) (b Str)) (! (or (str_lt a b) (str_lt b a) (= a b)) :pattern ((str_lt a b)))))
(assert (forall ((a Str) (b Str)) (! (not (and (str_lt a b) (str_lt b a))) :pattern ((str_lt a b)))))
(assert (forall ((a Str) (b Str) (c Str)) (! (=> (and (str_lt a b) (str_lt b c)) (str_lt a c)) :pattern ((str_lt a b) (str_lt b c)))))
`

// smtHeader returns the preamble plus the axiom groups whose symbols occur in body.
func smtHeader(body string) string {
	h := preamble
	if strings.Contains(body, "(s_elem ") {
		h += axSElem
	}
	if strings.Contains(body, "(str_len ") {
		h += axStrLen
	}
	if strings.Contains(body, "(str_cat ") {
		h += axStrCat + axStrLen
	}
	if strings.Contains(body, "(str_lt ") {
		h += axStrLt
	}
	return h
}

// Decls collects declarations in order.
type Decls struct {
	mu     sync.Mutex
	order  []string          // declaration text in order
	seen   map[string]bool   // declared names
	consts map[string]*Sort
	strs   map[string]*Term // string literal -> const
	strOrd []string
	fresh  int
}

func NewDecls() *Decls {
	return &Decls{seen: map[string]bool{}, consts: map[string]*Sort{}, strs: map[string]*Term{}}
}

func (d *Decls) Raw(name, text string) {
	d.mu.Lock()
	defer d.mu.Unlock()
	if d.seen[name] {
		return
	}
	d.seen[name] = true
	d.order = append(d.order, text)
}

func (d *Decls) Const(name string, s *Sort) *Term {
	d.mu.Lock()
	defer d.mu.Unlock()
	if !d.seen[name] {
		d.seen[name] = true
		d.consts[name] = s
		d.order = append(d.order, fmt.Sprintf("(declare-const %s %s)", name, s.Name))
	}
	return &Term{name, s}
}

func (d *Decls) Fresh(prefix string, s *Sort) *Term {
	d.mu.Lock()
	d.fresh++
	n := fmt.Sprintf("%s!%d", sanitize(prefix), d.fresh)
	d.mu.Unlock()
	return d.Const(n, s)
}

func (d *Decls) Fun(name string, args []*Sort, res *Sort) {
	var as []string
	for _, a := range args {
		as = append(as, a.Name)
	}
	d.Raw(name, fmt.Sprintf("(declare-fun %s (%s) %s)", name, strings.Join(as, " "), res.Name))
}

func (d *Decls) StrLit(s string) *Term {
	if s == "" {
		return &Term{"str_empty", SStr}
	}
	d.mu.Lock()
	defer d.mu.Unlock()
	if t, ok := d.strs[s]; ok {
		return t
	}
	n := fmt.Sprintf("S!%d", len(d.strs))
	t := &Term{n, SStr}
	d.strs[s] = t
	d.strOrd = append(d.strOrd, s)
	d.order = append(d.order, fmt.Sprintf("(declare-const %s Str) ; %q\n(assert (= (str_len %s) %d))", n, s, n, len(s)))
	return t
}

func (d *Decls) Text() string {
	d.mu.Lock()
	defer d.mu.Unlock()
	var b strings.Builder
	for _, o := range d.order {
		b.WriteString(o)
		b.WriteByte('\n')
	}
	if len(d.strs) > 0 {
		b.WriteString("(assert (distinct str_empty")
		for _, s := range d.strOrd {
			b.WriteByte(' ')
			b.WriteString(d.strs[s].S)
		}
		b.WriteString("))\n")
	}
	return b.String()
}

func sanitize(s string) string {
	var b strings.Builder
	for _, r := range s {
		switch {
		case r >= 'a' && r <= 'z', r >= 'A' && r <= 'Z', r >= '0' && r <= '9', r == '_', r == '.', r == '$', r == '!':
			b.WriteRune(r)
		case r == '*':
			b.WriteString("ptr.")
		case r == '[':
			b.WriteString("_L")
		case r == ']':
			b.WriteString("R_")
		case r == '/', r == ' ', r == ',', r == '(', r == ')', r == '{', r == '}', r == ';':
			b.WriteByte('_')
		default:
			b.WriteByte('_')
		}
	}
	return b.String()
}

// ---- Solver running ----

type SolverResult struct {
	Status string // unsat | sat | unknown | timeout | error
	Solver string
	Secs   float64
	Output string
}

var solverBins = []string{"z3-new", "z3", "cvc5"}

func solverCmd(ctx context.Context, solver string, file string, timeoutS int) *exec.Cmd {
	switch solver {
	case "z3", "z3-new":
		return exec.CommandContext(ctx, solver, fmt.Sprintf("-T:%d", timeoutS), "-smt2", file)
	case "cvc5":
		return exec.CommandContext(ctx, "cvc5", fmt.Sprintf("--tlimit=%d", timeoutS*1000), "--lang=smt2", file)
	}
	panic("unknown solver " + solver)
}

func runSolver(ctx context.Context, solver, file string, timeoutS int) SolverResult {
	t0 := time.Now()
	cmd := solverCmd(ctx, solver, file, timeoutS)
	var out bytes.Buffer
	cmd.Stdout = &out
	cmd.Stderr = &out
	_ = cmd.Run()
	secs := time.Since(t0).Seconds()
	o := out.String()
	first := ""
	for _, l := range strings.Split(o, "\n") {
		l = strings.TrimSpace(l)
		if l == "" || strings.HasPrefix(l, "WARNING") || strings.HasPrefix(l, "(warning") {
			continue
		}
		first = l
		break
	}
	st := "error"
	switch {
	case first == "unsat":
		st = "unsat"
	case first == "sat":
		st = "sat"
	case first == "unknown":
		st = "unknown"
	case strings.Contains(first, "timeout") || strings.Contains(o, "interrupted by timeout") || ctx.Err() != nil:
		st = "timeout"
	}
	if len(o) > 20000 {
		o = o[:20000] + "\n...[truncated]"
	}
	return SolverResult{Status: st, Solver: solver, Secs: secs, Output: o}
}

// raceSolvers runs z3-new first (short budget), then all three concurrently; when the query has an unpruned variant
// (alt), z3-new and cvc5 are also started on it after a few seconds (a different set of ground terms often lets the
// other variant through). Returns the first definite answer; otherwise the last answer. A `sat` on the pruned query
// is not definite when an unpruned variant exists (fewer assumptions). allRes has every solver result obtained.
func raceSolvers(file, alt string, timeoutS int, all bool) (SolverResult, []SolverResult) {
	var allRes []SolverResult
	ctx, cancel := context.WithCancel(context.Background())
	defer cancel()
	ch := make(chan SolverResult, 8)
	start := func(s, f, tag string) {
		go func() {
			r := runSolver(ctx, s, f, timeoutS)
			r.Solver += tag
			if tag == "" && alt != "" && r.Status == "sat" {
				r.Status = "unknown"
			}
			ch <- r
		}()
	}
	// z3-new first; the others join after a short head start unless an answer is already there
	start("z3-new", file, "")
	pending := 1
	launched, launchedAlt := false, false
	launchRest := func() {
		if !launched {
			launched = true
			start("z3", file, "")
			start("cvc5", file, "")
			pending += 2
		}
	}
	launchAlt := func() {
		if !launchedAlt && alt != "" {
			launchedAlt = true
			start("z3-new", alt, "+full")
			start("z3", alt, "+full")
			start("cvc5", alt, "+full")
			pending += 3
		}
	}
	if all {
		launchRest()
		launchAlt()
	}
	timer := time.After(800 * time.Millisecond)
	timer2 := time.After(1500 * time.Millisecond)
	var best SolverResult
	got := false
	for pending > 0 {
		select {
		case <-timer:
			launchRest()
			timer = nil
		case <-timer2:
			launchAlt()
			timer2 = nil
		case r := <-ch:
			pending--
			allRes = append(allRes, r)
			if r.Status == "unsat" || r.Status == "sat" {
				if !got {
					best = r
					got = true
					if !all {
						return best, allRes
					}
				} else if r.Status != best.Status {
					return SolverResult{Status: "error", Solver: "disagreement", Output: fmt.Sprintf("%s says %s, %s says %s", best.Solver, best.Status, r.Solver, r.Status)}, allRes
				}
			} else if !launched {
				launchRest()
			} else if pending == 0 {
				launchAlt() // everybody gave up on the pruned query before the fallback was due
			}
		}
	}
	if got {
		return best, allRes
	}
	sort.Slice(allRes, func(i, j int) bool { return allRes[i].Solver < allRes[j].Solver })
	r := allRes[len(allRes)-1]
	st := "error"
	for _, x := range allRes {
		if x.Status == "unknown" && st != "timeout" {
			st = "unknown"
		}
		if x.Status == "timeout" {
			st = "timeout"
		}
	}
	r.Status = st
	return r, allRes
}

func writeFile(path, content string) error {
	return os.WriteFile(path, []byte(content), 0o644)
}
