package main

// Translation of individual SSA instructions.

import (
	"fmt"
	"go/token"
	"hash/fnv"
	"go/types"
	"sort"
	"strings"

	"golang.org/x/tools/go/ssa"
)

func (ft *FuncTr) instr(b *ssa.BasicBlock, st *State, at *Term, in ssa.Instruction) (bool, error) {
	switch x := in.(type) {
	case *ssa.DebugRef:
		return false, nil
	case *ssa.Alloc:
		ty := x.Type().(*types.Pointer).Elem()
		if x.Heap && (ft.snapshotCell(x) || ft.valueArrayCell(x) || ft.lateCell(x)) {
			st.locals[x] = ft.w.zero(ft.d, ty)
			ft.vals[x] = Val{Ref: &LocalRef{alloc: x}}
			return false, nil
		}
		if x.Heap {
			p := ft.allocObj(st)
			pc := ft.d.Fresh("obj_"+x.Comment, SPtr)
			ft.assume(at, Eq(pc, p))
			ft.vals[x] = Val{T: pc}
			if ft.nonNil == nil {
				ft.nonNil = map[string]bool{}
			}
			ft.nonNil[pc.S] = true
			if ft.allocID == nil {
				ft.allocID = map[string]*Term{}
			}
			idc := ft.d.Fresh("id_"+x.Comment, SInt)
			ft.assume(at, Eq(idc, PObjID(pc)))
			ft.allocID[pc.S] = idc
			{
				// zero-initialisation writes only the new object
				arrs := map[string]*Sort{}
				ft.h.arraysOfTypeMem(ty, arrs)
				bef := map[string]*Term{}
				for n, srt := range arrs {
					bef[n] = ft.h.arr(st, n, srt)
				}
				ft.writeZero(st, at, pc, ty)
				for _, n := range sortedKeysT(bef) {
					b := bef[n]
					if a, ok := st.heap[n]; ok && a.S != b.S {
						ft.h.noteFreshFrame(b, a, idc)
						// zero-initialising the new object leaves the element sets of slices over other arrays alone
						if srt := b.Sort; srt != nil && srt.K == SPtr && elemsSupported(srt.V) && ft.elemsEager[srt.V.Mangle()] {
							sv := &Term{"es", SSlc}
							e1 := ft.h.elemsOf(a, sv, srt.V)
							e0 := ft.h.elemsOf(b, sv, srt.V)
							ft.assume(at, Forall([]Bound{{"es", SSlc}}, Implies(Or(IsNil(SlcArr(sv)), Not(Eq(PObjID(SlcArr(sv)), idc))), Eq(e1, e0)), []*Term{e1}))
						}
					}
				}
				return false, nil
			}
		} else {
			st.locals[x] = ft.w.zero(ft.d, ty)
			ft.vals[x] = Val{Ref: &LocalRef{alloc: x}}
		}
		if ft.trackDef[x] != nil || ft.exitDef[x] {
			st.ghost[defFlag(x)] = TTrue
		}
	case *ssa.Store:
		pv := ft.val(x.Addr)
		ty := x.Addr.Type().Underlying().(*types.Pointer).Elem()
		v := ft.val(x.Val)
		if v.T == nil {
			return false, unsupported("store of non-term value")
		}
		ft.checkImmutableStore(x.Addr)
		ft.checkBinds(at, x)
		ft.requireGuard(st, at, x.Addr, true, x.Pos())
		ft.store(st, at, pv, ty, v.T, x.Pos(), exprText(ft, x.Addr))
	case *ssa.UnOp:
		return false, ft.unop(st, at, x)
	case *ssa.BinOp:
		return false, ft.binop(st, at, x)
	case *ssa.FieldAddr:
		pv := ft.val(x.X)
		sty := derefType(x.X.Type())
		fty := sty.Underlying().(*types.Struct).Field(x.Field).Type()
		if pv.Ref != nil {
			np := append(append([]PathElem{}, pv.Ref.path...), PathElem{field: x.Field, ty: sty})
			ft.vals[x] = Val{Ref: &LocalRef{alloc: pv.Ref.alloc, path: np}}
			return false, nil
		}
		base := pv.T
		if base == nil {
			return false, unsupported("FieldAddr on non-pointer")
		}
		ft.assertNonNil(at, base, exprText(ft, x), "pointer must not be nil", x.Pos())
		if muIdx, gname, ok := ft.w.guardedField(sty, x.Field); ok {
			ft.noteGuard(x, &guardRef{mu: PFld(base, muIdx), base: base, field: gname})
		} else if g := ft.guardInfo[x.X]; g != nil {
			ft.noteGuard(x, g) // a field of a guarded struct value
		}
		if isStructT(fty) || isArrayT(fty) {
			ft.vals[x] = Val{T: PFld(base, x.Field)}
		} else {
			ft.vals[x] = Val{T: PFld(base, x.Field), FieldOf: &FieldOf{base, sty, x.Field}}
		}
	case *ssa.Field:
		v := ft.term(x.X)
		ft.define(x, ft.project(v, PathElem{field: x.Field, ty: x.X.Type()}))
	case *ssa.IndexAddr:
		if g := ft.guardInfo[x.X]; g != nil {
			ft.noteGuard(x, g)
		}
		return false, ft.indexAddr(st, at, x)
	case *ssa.Index:
		v := ft.term(x.X)
		i := ft.term(x.Index)
		switch t := x.X.Type().Underlying().(type) {
		case *types.Array:
			ft.assert(at, And(Le(IntLit(0), i), Lt(i, IntLit(t.Len()))), "safety.index", exprText(ft, x.X), "index in range", x.Pos())
			ft.define(x, Select(v, i))
		default:
			return false, unsupported("Index on " + x.X.Type().String())
		}
	case *ssa.Lookup:
		ft.requireGuard(st, at, x.X, false, x.Pos())
		return false, ft.lookup(st, at, x)
	case *ssa.MapUpdate:
		m := ft.term(x.Map)
		mt := x.Map.Type().Underlying().(*types.Map)
		ft.requireGuard(st, at, x.Map, true, x.Pos())
		ft.assert(at, Not(IsNil(m)), "safety.nilmap", exprText(ft, x.Map), "assignment to entry in nil map", x.Pos())
		ft.mapWriteFrame(st, at, mt, m, x.Pos())
		if pointerLike(ft.term(x.Value).Sort) || pointerLike(ft.term(x.Key).Sort) {
			ft.leak()
		}
		ft.h.mapSet(st, mt, m, ft.term(x.Key), ft.term(x.Value))
	case *ssa.MakeMap:
		mt := x.Type().Underlying().(*types.Map)
		p := ft.allocObj(st)
		pc := ft.d.Fresh("map", SPtr)
		ft.assume(at, Eq(pc, p))
		ma := ft.h.mapArrs(mt)
		ft.h.setArr(st, ma.dom, Store(ft.h.arr(st, ma.dom, ma.domS), pc, ConstArray(SArray(ma.k, SBool), TFalse)))
		ft.h.setArr(st, ma.card, Store(ft.h.arr(st, ma.card, SArray(SPtr, SInt)), pc, IntLit(0)))
		ft.h.setArr(st, ma.val, Store(ft.h.arr(st, ma.val, ma.valS), pc, ConstArray(SArray(ma.k, ma.v), ft.w.zero(ft.d, mt.Elem()))))
		ft.vals[x] = Val{T: pc}
	case *ssa.MakeSlice:
		return false, ft.makeSlice(st, at, x)
	case *ssa.Slice:
		return false, ft.sliceInstr(st, at, x)
	case *ssa.Extract:
		tv := ft.val(x.Tuple)
		if tv.Tuple == nil {
			return false, unsupported("extract from non-tuple")
		}
		ft.vals[x] = tv.Tuple[x.Index]
	case *ssa.Phi:
		if ft.loops[b] != nil {
			return false, unsupported("phi at loop header")
		}
		srt := ft.w.sortOf(ft.d, x.Type())
		nv := ft.d.Fresh("phi_"+x.Comment, srt)
		for _, e := range ft.edges[b] {
			for i, p := range b.Preds {
				if p == e.from {
					ft.assume(e.cond, Eq(nv, ft.term(x.Edges[i])))
				}
			}
		}
		ft.vals[x] = Val{T: nv}
	case *ssa.ChangeType:
		ft.vals[x] = ft.val(x.X)
	case *ssa.ChangeInterface:
		ft.vals[x] = ft.val(x.X)
	case *ssa.Convert:
		return false, ft.convert(st, at, x)
	case *ssa.MakeInterface:
		v := ft.term(x.X)
		tag := ft.typeTag(x.X.Type())
		bx := ft.box(v)
		ft.define(x, mk(SIfc, "MkI", IntLit(int64(tag)), bx))
	case *ssa.TypeAssert:
		return false, ft.typeAssert(st, at, x)
	case *ssa.MakeClosure:
		return false, ft.makeClosure(st, at, x)
	case *ssa.Range:
		switch mt := x.X.Type().Underlying().(type) {
		case *types.Map:
			ft.requireGuard(st, at, x.X, false, x.Pos())
			if g := ft.guardInfo[x.X]; g != nil {
				ft.noteGuard(x, g)
			}
			m := ft.term(x.X)
			ks := ft.w.sortOf(ft.d, mt.Key())
			st.iters[x] = ConstArray(SArray(ks, SBool), TFalse)
			d0 := ft.d.Fresh("dom0", SArray(ks, SBool))
			ft.assume(at, Eq(d0, ft.h.mapDom(st, mt, m)))
			ft.vals[x] = Val{IterOf: x, T: d0}
		default:
			return false, unsupported("range over " + x.X.Type().String())
		}
	case *ssa.Next:
		ft.requireGuard(st, at, x.Iter, false, x.Pos())
		return false, ft.next(st, at, x)
	case *ssa.Call:
		v, err := ft.call(st, at, x, x.Common(), x)
		if err != nil {
			return false, err
		}
		ft.vals[x] = v
	case *ssa.Defer:
		var args []Val
		for _, a := range x.Call.Args {
			args = append(args, ft.val(a))
		}
		var fnv Val
		if !x.Call.IsInvoke() {
			fnv = ft.val(x.Call.Value)
		} else {
			fnv = ft.val(x.Call.Value)
		}
		armed := ""
		if !blockDominatesAllReturns(b, ft.fn) {
			// conditional defer: executed only on some paths to a return. A ghost flag records whether it was
			// executed; the deferred call then runs under that flag.
			if ft.loopOf[b] != nil {
				return false, unsupported("defer inside a loop")
			}
			armed = deferFlag(x)
			st.ghost[armed] = TTrue
		}
		ft.defers = append(ft.defers, deferred{call: x, args: args, fnv: fnv, at: at, armed: armed})
	case *ssa.RunDefers:
		for i := len(ft.defers) - 1; i >= 0; i-- {
			df := ft.defers[i]
			if df.armed == "" {
				if _, err := ft.callWith(st, at, df.call, df.call.Common(), nil, df.args, df.fnv); err != nil {
					return false, err
				}
				continue
			}
			flag, ok := st.ghost[df.armed]
			if !ok || flag.S == "false" {
				continue // not executed on any path reaching this return
			}
			if flag.S == "true" {
				if _, err := ft.callWith(st, at, df.call, df.call.Common(), nil, df.args, df.fnv); err != nil {
					return false, err
				}
				continue
			}
			st2 := st.clone()
			if _, err := ft.callWith(st2, And(at, flag), df.call, df.call.Common(), nil, df.args, df.fnv); err != nil {
				return false, err
			}
			m := ft.mergeStates(b, []Edge{{b, And(at, Not(flag)), st}, {b, And(at, flag), st2}})
			*st = *m
		}
	case *ssa.If:
		c := ft.term(x.Cond)
		if err := ft.goEdge(b, b.Succs[0], And(at, c), st); err != nil {
			return true, err
		}
		if err := ft.goEdge(b, b.Succs[1], And(at, Not(c)), st); err != nil {
			return true, err
		}
		return true, nil
	case *ssa.Jump:
		return true, ft.goEdge(b, b.Succs[0], at, st)
	case *ssa.Return:
		return true, ft.ret(st, at, x)
	case *ssa.Panic:
		ft.assert(at, TFalse, "safety.panic", "", "panic must be unreachable", x.Pos())
		return true, nil
	case *ssa.Go:
		return false, ft.goStmt(st, at, x)
	default:
		return false, unsupported(fmt.Sprintf("instruction %T: %s", in, in))
	}
	return false, nil
}

func blockDominatesAllReturns(b *ssa.BasicBlock, fn *ssa.Function) bool {
	for _, o := range fn.Blocks {
		for _, in := range o.Instrs {
			if _, ok := in.(*ssa.RunDefers); ok {
				if !b.Dominates(o) {
					return false
				}
			}
		}
	}
	return true
}

func (ft *FuncTr) writeZero(st *State, at *Term, p *Term, ty types.Type) {
	if at, ok := ty.Underlying().(*types.Array); ok && at.Len() > 64 {
		panic(unsupported("large array allocation"))
	}
	ft.h.writeAt(st, p, ty, ft.w.zero(ft.d, ty))
}

func (ft *FuncTr) checkImmutableStore(addr ssa.Value) {
	// stores through elements of immutable byte-string types (net.IP, ...) are outside the model
	if ia, ok := addr.(*ssa.IndexAddr); ok {
		if ft.w.immutable[types.TypeString(ia.X.Type(), nil)] {
			panic(unsupported("store into element of immutable type " + ia.X.Type().String()))
		}
	}
	if fa, ok := addr.(*ssa.FieldAddr); ok {
		if ft.w.immutable[types.TypeString(derefType(fa.X.Type()), nil)] {
			panic(unsupported("store into field of immutable type " + derefType(fa.X.Type()).String()))
		}
	}
}

func (ft *FuncTr) typeTag(t types.Type) int { return typeTagOf(t) }

// typeTagOf: a deterministic tag per dynamic type (hash of the type string)
func typeTagOf(t types.Type) int {
	hsh := fnv.New32a()
	hsh.Write([]byte(types.TypeString(t, nil)))
	return 1000 + int(hsh.Sum32()%1000000)
}

func (ft *FuncTr) box(v *Term) *Term { return ft.h.box(v) }

func (h *HeapCtx) box(v *Term) *Term {
	bn := "box_" + v.Sort.Mangle()
	un := "unbox_" + v.Sort.Mangle()
	h.d.Fun(bn, []*Sort{v.Sort}, SInt)
	h.d.Fun(un, []*Sort{SInt}, v.Sort)
	// injectivity of boxing, once per sort
	h.d.Raw(bn+"$inj", fmt.Sprintf("(assert (forall ((bx %s)) (! (= (%s (%s bx)) bx) :pattern ((%s bx)))))", v.Sort.Name, un, bn, bn))
	return mk(SInt, bn, v)
}

// toIface boxes a value of static type ty into an interface value
func (h *HeapCtx) toIface(v *Term, ty types.Type) *Term {
	return mk(SIfc, "MkI", IntLit(int64(typeTagOf(ty))), h.box(v))
}

func (ft *FuncTr) unop(st *State, at *Term, x *ssa.UnOp) error {
	switch x.Op {
	case token.MUL:
		pv := ft.val(x.X)
		ty := x.X.Type().Underlying().(*types.Pointer).Elem()
		ft.requireGuard(st, at, x.X, false, x.Pos())
		if g := ft.guardInfo[x.X]; g != nil {
			switch ty.Underlying().(type) {
			case *types.Map, *types.Slice:
				ft.noteGuard(x, g) // the contents of a guarded map / slice are guarded too
			}
		}
		lst := st
		if g, ok := x.X.(*ssa.Global); ok && ft.w.writeOnce(g) {
			// a package variable assigned only by the package's initialisation has the same value at all times: read it
			// from the entry state, so that it survives the havoc of abstracted calls
			lst = ft.init
		}
		t := ft.load(lst, at, pv, ty, x.Pos(), exprText(ft, x.X))
		ft.define(x, t)
	case token.NOT:
		ft.define(x, Not(ft.term(x.X)))
	case token.SUB:
		v := ft.term(x.X)
		r := mk(v.Sort, "-", v)
		if ft.overflow {
			if lo, hi, ok := intRange(x.Type()); ok {
				ft.assert(at, And(Le(BigLit(lo), r), Le(r, BigLit(hi))), "overflow.neg", exprText(ft, x.X), "negation does not overflow", x.Pos())
			}
		}
		ft.define(x, r)
	case token.XOR:
		v := ft.term(x.X)
		lo, hi, ok := intRange(x.Type())
		if !ok {
			return unsupported("^ on non-integer")
		}
		if lo == "0" {
			ft.define(x, Sub(BigLit(hi), v))
		} else {
			ft.define(x, Sub(mk(SInt, "-", v), IntLit(1)))
		}
	case token.ARROW:
		return ft.recv(st, at, x)
	default:
		return unsupported("unary " + x.Op.String())
	}
	return nil
}

func tdiv(x, y *Term) *Term {
	zero := IntLit(0)
	neg := func(t *Term) *Term { return mk(SInt, "-", t) }
	return Ite(mk(SBool, ">=", x, zero),
		Ite(mk(SBool, ">", y, zero), mk(SInt, "div", x, y), neg(mk(SInt, "div", x, neg(y)))),
		Ite(mk(SBool, ">", y, zero), neg(mk(SInt, "div", neg(x), y)), mk(SInt, "div", neg(x), neg(y))))
}

func pow2(k int64) *Term {
	v := "1"
	// big exponent via string doubling
	n := []byte{1}
	_ = n
	// compute 2^k as decimal string
	digits := []int{1}
	for i := int64(0); i < k; i++ {
		carry := 0
		for j := range digits {
			d := digits[j]*2 + carry
			digits[j] = d % 10
			carry = d / 10
		}
		if carry > 0 {
			digits = append(digits, carry)
		}
	}
	var b strings.Builder
	for i := len(digits) - 1; i >= 0; i-- {
		b.WriteByte(byte('0' + digits[i]))
	}
	v = b.String()
	return BigLit(v)
}

func constInt(v ssa.Value) (int64, bool) {
	if c, ok := v.(*ssa.Const); ok && c.Value != nil {
		if i, ok2 := int64Of(c); ok2 {
			return i, true
		}
	}
	return 0, false
}

func int64Of(c *ssa.Const) (int64, bool) {
	defer func() { recover() }()
	if b, ok := c.Type().Underlying().(*types.Basic); ok && b.Info()&types.IsInteger != 0 {
		if b.Info()&types.IsUnsigned != 0 {
			u := c.Uint64()
			if u > 1<<62 {
				return 0, false
			}
			return int64(u), true
		}
		return c.Int64(), true
	}
	return 0, false
}

func (ft *FuncTr) binop(st *State, at *Term, x *ssa.BinOp) error {
	a := ft.term(x.X)
	b := ft.term(x.Y)
	ty := x.X.Type()
	isStr := isStringT(ty)
	switch x.Op {
	case token.EQL, token.NEQ:
		var r *Term
		if a.Sort == SSlc || a.Sort == SFn {
			// only comparisons with nil are legal in Go
			if a.Sort == SSlc {
				if isNilConst(x.Y) {
					r = IsNil(SlcArr(a))
				} else {
					r = IsNil(SlcArr(b))
				}
			} else {
				r = Eq(a, b)
			}
		} else if a.Sort == SIfc && !isNilConst(x.X) && !isNilConst(x.Y) {
			r = Eq(a, b)
		} else {
			r = Eq(a, b)
		}
		if x.Op == token.NEQ {
			r = Not(r)
		}
		ft.define(x, r)
	case token.LSS, token.LEQ, token.GTR, token.GEQ:
		if isStr {
			var r *Term
			switch x.Op {
			case token.LSS:
				r = mk(SBool, "str_lt", a, b)
			case token.GTR:
				r = mk(SBool, "str_lt", b, a)
			case token.LEQ:
				r = Not(mk(SBool, "str_lt", b, a))
			default:
				r = Not(mk(SBool, "str_lt", a, b))
			}
			ft.define(x, r)
			return nil
		}
		op := map[token.Token]string{token.LSS: "<", token.LEQ: "<=", token.GTR: ">", token.GEQ: ">="}[x.Op]
		ft.define(x, mk(SBool, op, a, b))
	case token.ADD, token.SUB, token.MUL:
		if isStr {
			ft.define(x, mk(SStr, "str_cat", a, b))
			return nil
		}
		if a.Sort == SReal {
			op := map[token.Token]string{token.ADD: "+", token.SUB: "-", token.MUL: "*"}[x.Op]
			ft.define(x, mk(SReal, op, a, b))
			return nil
		}
		op := map[token.Token]string{token.ADD: "+", token.SUB: "-", token.MUL: "*"}[x.Op]
		r := mk(SInt, op, a, b)
		lo, hi, ok := intRange(x.Type())
		if ok {
			if ft.overflow {
				kind := map[token.Token]string{token.ADD: "overflow.add", token.SUB: "overflow.sub", token.MUL: "overflow.mul"}[x.Op]
				ft.assert(at, And(Le(BigLit(lo), r), Le(r, BigLit(hi))), kind, exprText(ft, x.X)+op+exprText(ft, x.Y), "arithmetic does not wrap around", x.Pos())
			} else {
				ft.w.assume("machine arithmetic treated as mathematical (no wrap-around) in " + shortFuncName(ft.fn))
			}
		}
		ft.define(x, r)
	case token.QUO, token.REM:
		if a.Sort == SReal {
			ft.define(x, mk(SReal, "/", a, b))
			return nil
		}
		ft.assert(at, Not(Eq(b, IntLit(0))), "safety.divzero", exprText(ft, x.Y), "division by zero", x.Pos())
		q := tdiv(a, b)
		if x.Op == token.QUO {
			ft.define(x, q)
		} else {
			ft.define(x, Sub(a, mk(SInt, "*", b, q)))
		}
	case token.SHL, token.SHR:
		k, ok := constInt(x.Y)
		if !ok || k < 0 || k > 64 {
			ft.define(x, ft.uninterpBin("bit_"+x.Op.String(), a, b))
			return nil
		}
		if x.Op == token.SHR {
			// arithmetic shift = floor division for both signs
			ft.define(x, mk(SInt, "div", a, pow2(k)))
		} else {
			r := mk(SInt, "*", a, pow2(k))
			if lo, _, ok := intRange(x.Type()); ok && lo == "0" {
				r = mk(SInt, "mod", r, BigLit(intModulus(x.Type())))
			}
			ft.define(x, r)
		}
	case token.AND:
		if k, ok := constInt(x.Y); ok && k >= 0 && (k&(k+1)) == 0 {
			// mask 2^n - 1 on a non-negative operand
			if lo, _, okr := intRange(x.Type()); okr && lo == "0" {
				ft.define(x, mk(SInt, "mod", a, IntLit(k+1)))
				return nil
			}
		}
		if a.Sort == SBool {
			ft.define(x, And(a, b))
			return nil
		}
		ft.define(x, ft.uninterpBin("bit_and", a, b))
	case token.OR:
		if a.Sort == SBool {
			ft.define(x, Or(a, b))
			return nil
		}
		ft.define(x, ft.uninterpBin("bit_or", a, b))
	case token.XOR, token.AND_NOT:
		ft.define(x, ft.uninterpBin("bit_"+sanitize(x.Op.String()), a, b))
	default:
		return unsupported("binary " + x.Op.String())
	}
	return nil
}

func (ft *FuncTr) uninterpBin(name string, a, b *Term) *Term {
	name = sanitize(name)
	switch name {
	case "bit___", "bit__":
	}
	ft.d.Fun(name, []*Sort{SInt, SInt}, SInt)
	ft.w.assume("bit operation " + name + " left uninterpreted in " + shortFuncName(ft.fn))
	return mk(SInt, name, a, b)
}

func isNilConst(v ssa.Value) bool {
	c, ok := v.(*ssa.Const)
	return ok && c.Value == nil
}

func (ft *FuncTr) convert(st *State, at *Term, x *ssa.Convert) error {
	v := ft.term(x.X)
	from, to := x.X.Type(), x.Type()
	flo, fhi, fint := intRange(from)
	tlo, thi, tint := intRange(to)
	switch {
	case fint && tint:
		if bigLE(tlo, flo) && bigLE(fhi, thi) {
			ft.define(x, v)
			return nil
		}
		m := BigLit(intModulus(to))
		if tlo == "0" {
			ft.define(x, mk(SInt, "mod", v, m))
		} else {
			half := BigLit(strings.TrimPrefix(tlo, "-"))
			ft.define(x, Sub(mk(SInt, "mod", Add(v, half), m), half))
		}
	case fint && ft.w.sortOf(ft.d, to) == SReal:
		ft.define(x, mk(SReal, "to_real", v))
	case v.Sort == SReal && tint:
		// Go truncates toward zero
		r := Ite(mk(SBool, ">=", v, &Term{"0.0", SReal}), mk(SInt, "to_int", v), mk(SInt, "-", mk(SInt, "to_int", mk(SReal, "-", v))))
		if ft.overflow {
			ft.assert(at, And(Le(BigLit(tlo), r), Le(r, BigLit(thi))), "overflow.conv", exprText(ft, x.X), "float to integer conversion in range", x.Pos())
		}
		ft.define(x, r)
	case v.Sort == SReal && ft.w.sortOf(ft.d, to) == SReal:
		ft.define(x, v)
	case isStringT(from) && isStringT(to):
		ft.define(x, v)
	case isStringT(from) || isStringT(to):
		// string <-> []byte / []rune / int: abstract
		fn := "conv_" + v.Sort.Mangle() + "_" + ft.w.sortOf(ft.d, to).Mangle()
		rs := ft.w.sortOf(ft.d, to)
		ft.d.Fun(fn, []*Sort{v.Sort}, rs)
		r := mk(rs, fn, v)
		ft.assume(at, ft.w.rangeAssume(ft.d, r, to))
		ft.define(x, r)
	default:
		if ft.w.sortOf(ft.d, from) == ft.w.sortOf(ft.d, to) {
			ft.define(x, v)
			return nil
		}
		return unsupported(fmt.Sprintf("conversion %s -> %s", from, to))
	}
	return nil
}

func bigLE(a, b string) bool {
	// compare decimal strings with optional '-'
	na, nb := strings.HasPrefix(a, "-"), strings.HasPrefix(b, "-")
	if na != nb {
		return na
	}
	aa, bb := strings.TrimPrefix(a, "-"), strings.TrimPrefix(b, "-")
	var le bool
	if len(aa) != len(bb) {
		le = len(aa) < len(bb)
	} else {
		le = aa <= bb
	}
	if na {
		if aa == bb {
			return true
		}
		return !le
	}
	return le
}

func (ft *FuncTr) indexAddr(st *State, at *Term, x *ssa.IndexAddr) error {
	i := ft.term(x.Index)
	switch t := x.X.Type().Underlying().(type) {
	case *types.Slice:
		s := ft.term(x.X)
		ft.assert(at, And(Le(IntLit(0), i), Lt(i, SlcLen(s))), "safety.index", exprText(ft, x.X), "index in range", x.Pos())
		if ft.w.immutable[types.TypeString(x.X.Type(), nil)] {
			ft.vals[x] = Val{Imm: &ImmElem{s, i, t.Elem()}}
			return nil
		}
		ft.vals[x] = Val{T: SlcElemAddr(s, i)}
	case *types.Pointer:
		at2, ok := t.Elem().Underlying().(*types.Array)
		if !ok {
			return unsupported("IndexAddr on " + x.X.Type().String())
		}
		ft.assert(at, And(Le(IntLit(0), i), Lt(i, IntLit(at2.Len()))), "safety.index", exprText(ft, x.X), "index in range", x.Pos())
		pv := ft.val(x.X)
		if pv.Ref != nil {
			np := append(append([]PathElem{}, pv.Ref.path...), PathElem{idx: i, ty: t.Elem()})
			ft.vals[x] = Val{Ref: &LocalRef{alloc: pv.Ref.alloc, path: np}}
			return nil
		}
		ft.assertNonNil(at, pv.T, exprText(ft, x.X), "pointer must not be nil", x.Pos())
		ft.vals[x] = Val{T: PElem(pv.T, i)}
	default:
		return unsupported("IndexAddr on " + x.X.Type().String())
	}
	return nil
}

func (ft *FuncTr) lookup(st *State, at *Term, x *ssa.Lookup) error {
	switch t := x.X.Type().Underlying().(type) {
	case *types.Map:
		m := ft.term(x.X)
		k := ft.term(x.Index)
		v := ft.h.mapGet(st, t, m, k)
		vc := ft.d.Fresh(x.Name(), v.Sort)
		ft.assumeRaw(Eq(vc, v))
		ft.assume(at, ft.typeInv(st, vc, t.Elem()))
		if x.CommaOk {
			ft.vals[x] = Val{Tuple: []Val{{T: vc}, {T: ft.h.mapHas(st, t, m, k)}}}
		} else {
			ft.vals[x] = Val{T: vc}
		}
	case *types.Basic:
		s := ft.term(x.X)
		i := ft.term(x.Index)
		ft.assert(at, And(Le(IntLit(0), i), Lt(i, mk(SInt, "str_len", s))), "safety.index", exprText(ft, x.X), "string index in range", x.Pos())
		ft.d.Fun("str_at", []*Sort{SStr, SInt}, SInt)
		r := mk(SInt, "str_at", s, i)
		ft.assume(at, And(Le(IntLit(0), r), Le(r, IntLit(255))))
		ft.define(x, r)
	default:
		return unsupported("lookup on " + x.X.Type().String())
	}
	return nil
}

// zeroFill returns constraints saying array 'after' equals 'before' except that every cell of
// object id holds zero.
func (ft *FuncTr) zeroFillObj(st *State, at *Term, objID *Term, elem types.Type) {
	arrs := map[string]*Sort{}
	ft.h.arraysOfType(elem, arrs)
	for _, n := range sortedKeys(arrs) {
		srt := arrs[n]
		before := ft.h.arr(st, n, srt)
		after := ft.d.Fresh(n+"_z", srt)
		p := &Term{"zp", SPtr}
		var zero *Term
		switch srt.V {
		case SBool:
			zero = TFalse
		case SInt:
			zero = IntLit(0)
		case SStr:
			zero = &Term{"str_empty", SStr}
		case SPtr:
			zero = TNil
		case SSlc:
			zero = TNilSlice
		case SIfc:
			zero = &Term{"NilI", SIfc}
		case SReal:
			zero = &Term{"0.0", SReal}
		default:
			if srt.V == SFn {
				zero = ft.d.Const("fn_nil", SFn)
			} else if strings.HasPrefix(srt.V.Name, "TP_") {
				zero = ft.d.Const("zero_"+srt.V.Name, srt.V)
			} else {
				panic(unsupported("zero fill of sort " + srt.V.Name))
			}
		}
		body := Eq(Select(after, p), Ite(And(Not(IsNil(p)), Eq(PObjID(p), objID)), zero, Select(before, p)))
		ft.assume(at, Forall([]Bound{{"zp", SPtr}}, body, []*Term{Select(after, p)}))
		ft.h.setArr(st, n, after)
		ft.h.noteFreshFrame(before, after, objID) // only the new object is written
	}
}

func (ft *FuncTr) makeSlice(st *State, at *Term, x *ssa.MakeSlice) error {
	ln := ft.term(x.Len)
	cp := ft.term(x.Cap)
	elem := x.Type().Underlying().(*types.Slice).Elem()
	ft.assert(at, And(Le(IntLit(0), ln), Le(ln, cp)), "safety.makeslice", "", "len out of range", x.Pos())
	nx := ft.h.nextID(st)
	idc := ft.d.Fresh("arrid", SInt)
	ft.assume(at, Eq(idc, nx))
	st.ghost["$next"] = Add(nx, IntLit(1))
	ft.zeroFillObj(st, at, idc, elem)
	ft.define(x, SlcMk(PObj(idc), IntLit(0), ln, cp))
	// the new array is local (not reachable from older objects) until something that can carry a reference escapes
	if ft.localArr == nil {
		ft.localArr = map[string]*Term{}
	}
	if v := ft.vals[x].T; v != nil {
		ft.localArr[v.S] = idc
	}
	return nil
}

func (ft *FuncTr) sliceInstr(st *State, at *Term, x *ssa.Slice) error {
	switch t := x.X.Type().Underlying().(type) {
	case *types.Slice:
		s := ft.term(x.X)
		lo := IntLit(0)
		hi := SlcLen(s)
		mx := SlcCap(s)
		if x.Low != nil {
			lo = ft.term(x.Low)
		}
		if x.High != nil {
			hi = ft.term(x.High)
		}
		if x.Max != nil {
			mx = ft.term(x.Max)
		}
		ft.assert(at, And(Le(IntLit(0), lo), Le(lo, hi), Le(hi, mx), Le(mx, SlcCap(s))), "safety.slice", exprText(ft, x.X), "slice bounds in range", x.Pos())
		r := SlcMk(SlcArr(s), Add(SlcOff(s), lo), Sub(hi, lo), Sub(mx, lo))
		// slicing a nil slice yields nil: arr stays Nil
		ft.define(x, r)
	case *types.Basic:
		s := ft.term(x.X)
		lo := IntLit(0)
		hi := mk(SInt, "str_len", s)
		if x.Low != nil {
			lo = ft.term(x.Low)
		}
		if x.High != nil {
			hi = ft.term(x.High)
		}
		ft.assert(at, And(Le(IntLit(0), lo), Le(lo, hi), Le(hi, mk(SInt, "str_len", s))), "safety.slice", exprText(ft, x.X), "string slice bounds in range", x.Pos())
		ft.d.Fun("str_sub", []*Sort{SStr, SInt, SInt}, SStr)
		r := mk(SStr, "str_sub", s, lo, hi)
		ft.assume(at, Eq(mk(SInt, "str_len", r), Sub(hi, lo)))
		ft.define(x, r)
	case *types.Pointer:
		arr, ok := t.Elem().Underlying().(*types.Array)
		if !ok {
			return unsupported("slice of " + x.X.Type().String())
		}
		pv := ft.val(x.X)
		if pv.Ref != nil && len(pv.Ref.path) == 0 && x.Low == nil && x.High == nil && x.Max == nil {
			// x[:] of an immutable temporary array: a function of the content
			r := ft.h.arrSlice(ft.localGet(st, pv.Ref.alloc))
			ft.assume(at, And(Eq(SlcLen(r), IntLit(arr.Len())), Eq(SlcCap(r), IntLit(arr.Len())), Eq(SlcOff(r), IntLit(0)), Not(IsNil(SlcArr(r))), Lt(PObjID(SlcArr(r)), ft.h.nextID(st))))
			ft.define(x, r)
			return nil
		}
		if pv.T == nil {
			return unsupported("slice of local array")
		}
		lo := IntLit(0)
		hi := IntLit(arr.Len())
		if x.Low != nil {
			lo = ft.term(x.Low)
		}
		if x.High != nil {
			hi = ft.term(x.High)
		}
		ft.assert(at, And(Not(IsNil(pv.T)), Le(IntLit(0), lo), Le(lo, hi), Le(hi, IntLit(arr.Len()))), "safety.slice", exprText(ft, x.X), "slice bounds in range", x.Pos())
		ft.define(x, SlcMk(pv.T, lo, Sub(hi, lo), Sub(IntLit(arr.Len()), lo)))
	default:
		return unsupported("slice of " + x.X.Type().String())
	}
	return nil
}

func (ft *FuncTr) typeAssert(st *State, at *Term, x *ssa.TypeAssert) error {
	v := ft.term(x.X)
	if _, isIface := x.AssertedType.Underlying().(*types.Interface); isIface {
		// interface-to-interface: succeeds for non-nil values implementing it; abstract
		ok := ft.d.Fresh("ta_ok", SBool)
		ft.assume(at, Implies(ok, Not(Eq(v, &Term{"NilI", SIfc}))))
		if x.CommaOk {
			ft.vals[x] = Val{Tuple: []Val{{T: Ite(ok, v, &Term{"NilI", SIfc})}, {T: ok}}}
		} else {
			ft.assert(at, ok, "safety.typeassert", exprText(ft, x.X), "type assertion holds", x.Pos())
			ft.vals[x] = Val{T: v}
		}
		return nil
	}
	tag := ft.typeTag(x.AssertedType)
	rs := ft.w.sortOf(ft.d, x.AssertedType)
	okT := And(Not(Eq(v, &Term{"NilI", SIfc})), Eq(mk(SInt, "i_tag", v), IntLit(int64(tag))))
	un := "unbox_" + rs.Mangle()
	ft.d.Fun("box_"+rs.Mangle(), []*Sort{rs}, SInt)
	ft.d.Fun(un, []*Sort{SInt}, rs)
	val := mk(rs, un, mk(SInt, "i_val", v))
	if x.CommaOk {
		ft.vals[x] = Val{Tuple: []Val{{T: Ite(okT, val, ft.w.zero(ft.d, x.AssertedType))}, {T: okT}}}
	} else {
		ft.assert(at, okT, "safety.typeassert", exprText(ft, x.X), "type assertion holds", x.Pos())
		ft.define(x, val)
	}
	return nil
}

func (ft *FuncTr) next(st *State, at *Term, x *ssa.Next) error {
	iv := ft.val(x.Iter)
	if iv.IterOf == nil {
		return unsupported("next on non-map iterator")
	}
	r := iv.IterOf
	mt := r.X.Type().Underlying().(*types.Map)
	m := ft.term(r.X)
	dom0 := iv.T
	visited := ft.iterVisited(st, r)
	ks := ft.w.sortOf(ft.d, mt.Key())
	ok := ft.d.Fresh("next_ok", SBool)
	k := ft.d.Fresh("next_k", ks)
	domNow := ft.h.mapDom(st, mt, m)
	// ok: k is a present, not yet visited key
	ft.assume(at, Implies(ok, And(Select(domNow, k), Not(Select(visited, k)))))
	// !ok: every original key still present was visited
	qk := &Term{"nk", ks}
	ft.assume(at, Implies(Not(ok), Forall([]Bound{{"nk", ks}}, Implies(And(Select(dom0, qk), Select(domNow, qk)), Select(visited, qk)))))
	ft.assume(at, ft.w.rangeAssume(ft.d, k, mt.Key()))
	v := ft.h.mapGet(st, mt, m, k)
	vc := ft.d.Fresh("next_v", v.Sort)
	ft.assumeRaw(Eq(vc, v))
	ft.assume(at, ft.typeInv(st, vc, mt.Elem()))
	st.iters[r] = Ite(ok, Store(visited, k, TTrue), visited)
	st.ghost[iterKeyName(r)] = k // curkey(n)
	ft.vals[x] = Val{Tuple: []Val{{T: ok}, {T: k}, {T: vc}}}
	return nil
}

func (ft *FuncTr) ret(st *State, at *Term, x *ssa.Return) error {
	if err := ft.checkComplete(x.Block(), nil, at); err != nil {
		return err
	}
	var res []SV
	sig := ft.fn.Signature.Results()
	for i, r := range x.Results {
		res = append(res, SV{T: ft.term(r), Ty: sig.At(i).Type()})
	}
	ft.results = res
	if res == nil {
		ft.results = []SV{}
	}
	env := ft.newEnv(st)
	for i, en := range ft.c.Ensures {
		if en.Assumed {
			continue // given to callers, not proved here (reported as an assumption)
		}
		t, err := env.trBool(en.E)
		if err != nil {
			return fmt.Errorf("ensures[%d] (%s:%d): %v", i+1, en.File, en.Line, err)
		}
		ft.assert(at, t, fmt.Sprintf("ensures[%s]", clauseID(en, i)), "", en.Text, x.Pos())
	}
	if len(ft.c.Exits) > 0 {
		envx := ft.newEnv(st)
		envx.pos = x.Pos()
		if !envx.pos.IsValid() {
			envx.pos = ft.curPos
		}
		for i, ex := range ft.c.Exits {
			var used []*ssa.Alloc
			envx.onLocal = func(a *ssa.Alloc) { used = append(used, a) }
			t, err := envx.trBool(ex.E)
			envx.onLocal = nil
			if err != nil {
				// a local that is not in scope at this return: the clause does not speak about this exit
				if strings.Contains(err.Error(), "unknown identifier") {
					if ft.exitSkip == nil {
						ft.exitSkip = map[int]string{}
					}
					ft.exitSkip[i] = err.Error()
					continue
				}
				return fmt.Errorf("exit assert[%d] (%s:%d): %v", i+1, ex.File, ex.Line, err)
			}
			if ft.exitHit == nil {
				ft.exitHit = map[int]bool{}
			}
			ft.exitHit[i] = true
			var guard []*Term
			seen := map[*ssa.Alloc]bool{}
			for _, a := range used {
				if ft.exitDef[a] && !seen[a] {
					seen[a] = true
					guard = append(guard, ft.h.ghostVar(st, defFlag(a), SBool))
				}
			}
			if len(guard) > 0 {
				t = Implies(And(guard...), t)
			}
			ft.assert(at, t, fmt.Sprintf("exit[%s]", clauseID(ex, i)), "", ex.Text, x.Pos())
		}
	}
	for i, rc := range ft.c.ReadonlyWhen {
		cond, err := env.trBool(rc.E)
		if err != nil {
			return fmt.Errorf("readonly[%d] (%s:%d): %v", i+1, rc.File, rc.Line, err)
		}
		initNext := ft.h.nextID(ft.init)
		for _, n := range sortedKeysT(st.heap) {
			cur := st.heap[n]
			if cur.Sort.K != SPtr || strings.HasPrefix(n, "G_") {
				continue // ghost integers are not memory
			}
			was := ft.h.arr(ft.init, n, cur.Sort)
			if was.S == cur.S {
				continue
			}
			ft.assert(at, Implies(cond, frameCond(&ArrMod{sort: cur.Sort}, was, cur, initNext)), fmt.Sprintf("readonly[%d]", i+1), n,
				"when "+rc.Text+": no cell of an object allocated before the call was written", x.Pos())
		}
	}
	if ft.c.Denotes != nil {
		dv := env.tr(ft.c.Denotes)
		var argT []*Term
		for _, p := range ft.fn.Params {
			argT = append(argT, ft.vals[p].T)
		}
		app := ft.h.fnApp(st, env.val(dv), ft.fn.Signature, argT)
		ft.assert(at, Eq(res[0].T, app), "denotes", "", "result == apply("+ft.c.DenotesText+", arguments)", x.Pos())
	}
	ft.results = nil
	return nil
}

func (ft *FuncTr) goStmt(st *State, at *Term, x *ssa.Go) error {
	// the spawned function's precondition must hold here; nothing else is modelled
	c := x.Common()
	if callee := c.StaticCallee(); callee != nil {
		if con := ft.w.contractFor(calleeName(callee)); con != nil && len(con.Requires) > 0 {
			return unsupported("go statement with callee precondition")
		}
	}
	ft.w.assume("goroutine started in " + shortFuncName(ft.fn) + " is not modelled (scheduler dropped)")
	return nil
}

func (ft *FuncTr) recv(st *State, at *Term, x *ssa.UnOp) error {
	return unsupported("channel receive")
}

// snapshotCell: a variable captured by closures but written exactly once (before any capture) and
// never written by the closures can be treated as a local whose value is snapshotted at capture.
func (ft *FuncTr) snapshotCell(a *ssa.Alloc) bool {
	if a.Referrers() == nil {
		return false
	}
	var stores []*ssa.Store
	var closures []*ssa.MakeClosure
	for _, r := range *a.Referrers() {
		switch x := r.(type) {
		case *ssa.Store:
			if x.Addr != a {
				return false
			}
			stores = append(stores, x)
		case *ssa.UnOp:
			if x.Op != token.MUL {
				return false
			}
		case *ssa.MakeClosure:
			closures = append(closures, x)
		case *ssa.DebugRef:
		default:
			return false
		}
	}
	if len(closures) == 0 || len(stores) != 1 {
		return false
	}
	sb := stores[0].Block()
	for _, mc := range closures {
		if !sb.Dominates(mc.Block()) {
			return false
		}
		if sb == mc.Block() {
			// store must come first
			for _, in := range sb.Instrs {
				if in == ssa.Instruction(mc) {
					return false
				}
				if in == ssa.Instruction(stores[0]) {
					break
				}
			}
		}
		fn := mc.Fn.(*ssa.Function)
		for i, b := range mc.Bindings {
			if b != ssa.Value(a) {
				continue
			}
			fv := fn.FreeVars[i]
			if fv.Referrers() != nil {
				for _, r := range *fv.Referrers() {
					switch y := r.(type) {
					case *ssa.UnOp:
						if y.Op != token.MUL {
							return false
						}
					case *ssa.DebugRef:
					default:
						return false
					}
				}
			}
		}
	}
	return true
}

// valueArrayCell: a local array that is assigned once and only ever sliced whole as an argument of
// pure callees is an immutable temporary; x[:] is then modelled as a function of the array's content.
func (ft *FuncTr) valueArrayCell(a *ssa.Alloc) bool {
	if _, ok := a.Type().(*types.Pointer).Elem().Underlying().(*types.Array); !ok {
		return false
	}
	if a.Referrers() == nil {
		return false
	}
	stores := 0
	for _, r := range *a.Referrers() {
		switch x := r.(type) {
		case *ssa.Store:
			if x.Addr != ssa.Value(a) {
				return false
			}
			stores++
		case *ssa.Slice:
			if x.X != ssa.Value(a) || x.Low != nil || x.High != nil || x.Max != nil || x.Referrers() == nil {
				return false
			}
			for _, u := range *x.Referrers() {
				switch y := u.(type) {
				case *ssa.DebugRef:
				case *ssa.Call:
					_, con, _ := ft.w.resolveCallee(y.Common())
					if con == nil || !con.Pure {
						return false
					}
				default:
					return false
				}
			}
		case *ssa.DebugRef:
		default:
			return false
		}
	}
	return stores == 1
}

func sortedKeysT(m map[string]*Term) []string {
	out := make([]string, 0, len(m))
	for k := range m {
		out = append(out, k)
	}
	sort.Strings(out)
	return out
}

// iterKeyName: ghost variable holding the key chosen by the latest Next of map iteration r (spec: curkey(n)).
func iterKeyName(r *ssa.Range) string { return fmt.Sprintf("$key_%d", int(r.Pos())) }

// lateCell: a variable captured by closures that only read it, where every capturing closure is used solely as the
// operand of a call or defer in this function. Nothing can alias such a variable (its address is never taken
// explicitly), so it is kept as a local; a closure call binds the variable's value at the time of the call.
func (ft *FuncTr) lateCell(a *ssa.Alloc) bool {
	if v, ok := ft.lateCells[a]; ok {
		return v
	}
	if ft.lateCells == nil {
		ft.lateCells = map[*ssa.Alloc]bool{}
	}
	res := func() bool {
		if a.Referrers() == nil {
			return false
		}
		nClos := 0
		for _, r := range *a.Referrers() {
			switch x := r.(type) {
			case *ssa.Store:
				if x.Addr != ssa.Value(a) {
					return false
				}
			case *ssa.UnOp:
				if x.Op != token.MUL {
					return false
				}
			case *ssa.DebugRef:
			case *ssa.MakeClosure:
				nClos++
				// the closure value is only called / deferred here
				if x.Referrers() == nil {
					return false
				}
				for _, u := range *x.Referrers() {
					switch y := u.(type) {
					case *ssa.Defer:
						if y.Call.Value != ssa.Value(x) {
							return false
						}
					case *ssa.Call:
						if y.Call.Value != ssa.Value(x) {
							return false
						}
					case *ssa.DebugRef:
					default:
						return false
					}
				}
				fn, ok := x.Fn.(*ssa.Function)
				if !ok {
					return false
				}
				for i, b := range x.Bindings {
					if b != ssa.Value(a) {
						continue
					}
					fv := fn.FreeVars[i]
					if fv.Referrers() == nil {
						continue
					}
					for _, u := range *fv.Referrers() {
						switch y := u.(type) {
						case *ssa.UnOp:
							if y.Op != token.MUL {
								return false
							}
						case *ssa.DebugRef:
						default:
							return false // written, re-captured or passed on inside the closure
						}
					}
				}
			default:
				return false
			}
		}
		return nClos > 0
	}()
	ft.lateCells[a] = res
	return res
}
