package main

// Lock discipline (guarded_by): every access to a guarded field, and to the map / slice stored in it, needs the
// guarding mutex to be held by the executing thread (read lock for reads, write lock for writes).
// The ghost array $held (mutex address -> 0 free, 1 read-locked, 2 write-locked) is the verified thread's view;
// sync.(RW)Mutex methods are specified over it in stubs/std.spec.

import (
	"go/token"
	"go/types"
	"sort"
	"strings"

	"golang.org/x/tools/go/ssa"
)

type guardRef struct {
	mu    *Term  // address of the mutex
	base  *Term  // the object holding field and mutex
	field string // Type.field
}

// guardedField: is field idx of named struct sty guarded? returns the index of the mutex field.
func (w *World) guardedField(sty types.Type, idx int) (muIdx int, name string, ok bool) {
	nt, isNamed := sty.(*types.Named)
	if !isNamed {
		return 0, "", false
	}
	st, isStruct := nt.Underlying().(*types.Struct)
	if !isStruct || nt.Obj().Pkg() == nil {
		return 0, "", false
	}
	fname := nt.Obj().Name() + "." + st.Field(idx).Name()
	for _, g := range w.guarded {
		if g.Pkg != nt.Obj().Pkg().Path() {
			continue
		}
		for _, f := range g.Fields {
			if f != fname {
				continue
			}
			mp := strings.SplitN(g.Mutex, ".", 2)
			if len(mp) != 2 || mp[0] != nt.Obj().Name() {
				continue
			}
			for i := 0; i < st.NumFields(); i++ {
				if st.Field(i).Name() == mp[1] {
					return i, fname, true
				}
			}
		}
	}
	return 0, "", false
}

func (ft *FuncTr) lockState(st *State, mu *Term) *Term {
	return Select(ft.h.ghostVar(st, "$held", SArray(SPtr, SInt)), mu)
}

func (ft *FuncTr) noteGuard(v ssa.Value, g *guardRef) {
	if ft.guardInfo == nil {
		ft.guardInfo = map[ssa.Value]*guardRef{}
	}
	ft.guardInfo[v] = g
}

// requireGuard emits the lock obligation for an access through v (if v stems from a guarded field).
func (ft *FuncTr) requireGuard(st *State, at *Term, v ssa.Value, write bool, pos token.Pos) {
	g := ft.guardInfo[v]
	if g == nil {
		return
	}
	ls := ft.lockState(st, g.mu)
	var need *Term
	kind := "guard.read"
	if write {
		need = Eq(ls, IntLit(2))
		kind = "guard.write"
	} else {
		need = mk(SBool, ">=", ls, IntLit(1))
	}
	// an object allocated by this very call is not shared yet (constructors)
	fresh := Le(ft.h.nextID(ft.init), PObjID(g.base))
	what := "read of"
	if write {
		what = "write to"
	}
	ft.assert(at, Or(need, fresh), kind, g.field, what+" guarded state "+g.field+" needs its mutex to be held", pos)
}

// guardedAccessors lists the functions of the loaded packages that touch a guarded field (by FieldAddr).
func (w *World) guardedAccessors(prog []*ssa.Function) map[string][]string {
	out := map[string][]string{}
	for _, fn := range prog {
		seen := map[string]bool{}
		for _, b := range fn.Blocks {
			for _, in := range b.Instrs {
				fa, ok := in.(*ssa.FieldAddr)
				if !ok {
					continue
				}
				if _, name, g := w.guardedField(derefType(fa.X.Type()), fa.Field); g && !seen[name] {
					seen[name] = true
					out[name] = append(out[name], shortFuncName(fn))
				}
			}
		}
	}
	for k := range out {
		sort.Strings(out[k])
	}
	return out
}
