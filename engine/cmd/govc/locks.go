package main

// Lock discipline (guarded_by): every access to a guarded field, and to the map / slice stored in it, needs the
// guarding mutex to be held by the executing thread (read lock for reads, write lock for writes).
// The ghost array $held (mutex address -> 0 free, 1 read-locked, 2 write-locked) is the verified thread's view;
// sync.(RW)Mutex methods are specified over it in stubs/std.spec.

import (
	"os"
	"fmt"
	"go/token"
	"go/types"
	"sort"
	"strings"

	"golang.org/x/tools/go/ssa"
)

type guardRef struct {
	mu    *Term  // address of the mutex
	base  *Term  // the object holding field and mutex
	field string // Type.field
}

// guardedField: is field idx of named struct sty guarded? returns the index of the mutex field.
func (w *World) guardedField(sty types.Type, idx int) (muIdx int, name string, ok bool) {
	nt, isNamed := sty.(*types.Named)
	if !isNamed {
		return 0, "", false
	}
	st, isStruct := nt.Underlying().(*types.Struct)
	if !isStruct || nt.Obj().Pkg() == nil {
		return 0, "", false
	}
	fname := nt.Obj().Name() + "." + st.Field(idx).Name()
	for _, g := range w.guarded {
		if g.Pkg != nt.Obj().Pkg().Path() {
			continue
		}
		for _, f := range g.Fields {
			if f != fname {
				continue
			}
			mp := strings.SplitN(g.Mutex, ".", 2)
			if len(mp) != 2 || mp[0] != nt.Obj().Name() {
				continue
			}
			for i := 0; i < st.NumFields(); i++ {
				if st.Field(i).Name() == mp[1] {
					return i, fname, true
				}
			}
		}
	}
	return 0, "", false
}

func (ft *FuncTr) lockState(st *State, mu *Term) *Term {
	return Select(ft.h.ghostVar(st, "$held", SArray(SPtr, SInt)), mu)
}

func (ft *FuncTr) noteGuard(v ssa.Value, g *guardRef) {
	if ft.guardInfo == nil {
		ft.guardInfo = map[ssa.Value]*guardRef{}
	}
	ft.guardInfo[v] = g
}

// requireGuard emits the lock obligation for an access through v (if v stems from a guarded field).
func (ft *FuncTr) requireGuard(st *State, at *Term, v ssa.Value, write bool, pos token.Pos) {
	g := ft.guardInfo[v]
	if g == nil {
		return
	}
	ls := ft.lockState(st, g.mu)
	var need *Term
	kind := "guard.read"
	if write {
		need = Eq(ls, IntLit(2))
		kind = "guard.write"
	} else {
		need = mk(SBool, ">=", ls, IntLit(1))
	}
	// an object allocated by this very call is not shared yet (constructors)
	fresh := Le(ft.h.nextID(ft.init), PObjID(g.base))
	what := "read of"
	if write {
		what = "write to"
	}
	ft.assert(at, Or(need, fresh), kind, g.field, what+" guarded state "+g.field+" needs its mutex to be held", pos)
}

// guardedAccessors lists the functions of the loaded packages that touch a guarded field (by FieldAddr).
func (w *World) guardedAccessors(prog []*ssa.Function) map[string][]string {
	out := map[string][]string{}
	for _, fn := range prog {
		seen := map[string]bool{}
		for _, b := range fn.Blocks {
			for _, in := range b.Instrs {
				fa, ok := in.(*ssa.FieldAddr)
				if !ok {
					continue
				}
				if _, name, g := w.guardedField(derefType(fa.X.Type()), fa.Field); g && !seen[name] {
					seen[name] = true
					out[name] = append(out[name], shortFuncName(fn))
				}
			}
		}
	}
	for k := range out {
		sort.Strings(out[k])
	}
	return out
}

// freshVal: an arbitrary value of type ty (tuples component-wise).
func (ft *FuncTr) absVal(ty types.Type, tag string) Val {
	if tup, ok := ty.(*types.Tuple); ok {
		var vs []Val
		for i := 0; i < tup.Len(); i++ {
			vs = append(vs, ft.absVal(tup.At(i).Type(), tag))
		}
		return Val{Tuple: vs}
	}
	return Val{T: ft.d.Fresh(tag, ft.w.sortOf(ft.d, ty))}
}

// computeLoopModsLockOnly: only the locals assigned in the loop and the map iterators advanced in it are needed;
// the heap is havocked as a whole at the loop head.
func (ft *FuncTr) computeLoopModsLockOnly(l *LoopInfo) {
	l.modLocals = map[*ssa.Alloc]bool{}
	l.modArrs = map[string]*loopArr{}
	l.modIters = map[*ssa.Range]bool{}
	l.modGhost = map[string]*Sort{}
	for _, b := range ft.fn.Blocks {
		if !l.Blocks[b] {
			continue
		}
		for _, in := range b.Instrs {
			switch x := in.(type) {
			case *ssa.Store:
				if al, ok := rootAlloc(x.Addr); ok {
					l.modLocals[al] = true
				}
			case *ssa.Alloc:
				l.modLocals[x] = true
			case *ssa.Next:
				if r, ok := x.Iter.(*ssa.Range); ok {
					l.modIters[r] = true
					l.modGhost[iterKeyName(r)] = ft.w.sortOf(ft.d, r.X.Type().Underlying().(*types.Map).Key())
				}
			case *ssa.Call:
				// a local whose address escapes into a call may be written by it
				for _, a := range x.Call.Args {
					if al, ok := rootAlloc(a); ok {
						l.modLocals[al] = true
					}
				}
			}
		}
	}
}

func rootAlloc(v ssa.Value) (*ssa.Alloc, bool) {
	for {
		switch x := v.(type) {
		case *ssa.Alloc:
			return x, true
		case *ssa.FieldAddr:
			v = x.X
		case *ssa.IndexAddr:
			v = x.X
		default:
			return nil, false
		}
	}
}

// touchesLocks: does fn (or a function it statically calls, or a closure it creates) call a sync lock method?
func (w *World) touchesLocks(fn *ssa.Function, seen map[*ssa.Function]bool) bool {
	if fn == nil || seen[fn] {
		return false
	}
	seen[fn] = true
	if fn.Blocks == nil {
		return false
	}
	for _, b := range fn.Blocks {
		for _, in := range b.Instrs {
			var c *ssa.CallCommon
			switch x := in.(type) {
			case *ssa.Call:
				c = x.Common()
			case *ssa.Defer:
				c = x.Common()
			case *ssa.Go:
				continue // another thread
			case *ssa.MakeClosure:
				if f2, ok := x.Fn.(*ssa.Function); ok && w.touchesLocks(f2, seen) {
					return true
				}
			}
			if c == nil {
				continue
			}
			if sc := c.StaticCallee(); sc != nil {
				n := calleeName(sc)
				if strings.HasPrefix(n, "(*sync.RWMutex).") || strings.HasPrefix(n, "(*sync.Mutex).") {
					return true
				}
				if w.touchesLocks(sc, seen) {
					return true
				}
			}
		}
	}
	return false
}

// abstractCall (lock-discipline-only functions): a callee without contract that takes no lock itself is
// abstracted: arbitrary results, arbitrary heap afterwards, lock state unchanged.
func (ft *FuncTr) abstractCall(st *State, at *Term, sig *types.Signature, fn *ssa.Function, name string) (Val, error) {
	if fn != nil && ft.w.touchesLocks(fn, map[*ssa.Function]bool{}) {
		return Val{}, fmt.Errorf("callee %s takes locks: it needs a (lock) contract to be called from a lock-discipline-only function", name)
	}
	if fn == nil {
		ft.w.assume("function values and interface methods called from lock-discipline-only functions do not take the guarded locks (" + shortFuncName(ft.fn) + ")")
	}
	if os.Getenv("GOVC_DEBUG_ABS") != "" {
		fmt.Fprintf(os.Stderr, "abstracted call in %s: %s at %s\n", shortFuncName(ft.fn), name, ft.posStr(ft.curPos))
	}
	old := ft.h.nextID(st)
	ft.h.havocAll(st)
	nx := ft.d.Fresh("g_next_a", SInt)
	ft.assume(at, Le(old, nx))
	st.ghost["$next"] = nx
	res := sig.Results()
	switch res.Len() {
	case 0:
		return Val{}, nil
	case 1:
		return ft.absVal(res.At(0).Type(), "abs"), nil
	}
	return ft.absVal(res, "abs"), nil
}

// checkBinds: `binds T.field to M` - a store to that field must store the bound method value M.
func (ft *FuncTr) checkBinds(at *Term, x *ssa.Store) {
	if len(ft.c.Binds) == 0 {
		return
	}
	fa, ok := x.Addr.(*ssa.FieldAddr)
	if !ok {
		return
	}
	sty := derefType(fa.X.Type())
	nt, ok := sty.(*types.Named)
	if !ok {
		return
	}
	fname := nt.Obj().Name() + "." + nt.Underlying().(*types.Struct).Field(fa.Field).Name()
	for i, b := range ft.c.Binds {
		parts := strings.Split(b.Field, ".")
		if len(parts) < 2 || parts[len(parts)-2]+"."+parts[len(parts)-1] != fname {
			continue
		}
		if ft.bindHit == nil {
			ft.bindHit = map[int]bool{}
		}
		ft.bindHit[i] = true
		good := false
		got := x.Val.String()
		if mc, ok := x.Val.(*ssa.MakeClosure); ok {
			if f, ok := mc.Fn.(*ssa.Function); ok {
				got = f.String()
				// a method value is the synthetic wrapper "<method>$bound"
				if strings.HasSuffix(f.String(), b.Method+"$bound") || strings.HasSuffix(strings.ReplaceAll(f.String(), "go.universe.tf/metallb/", ""), b.Method+"$bound") {
					good = true
				}
			}
		}
		goal := TTrue
		if !good {
			goal = TFalse
		}
		ft.assert(at, goal, "binds", fname, "the value stored in "+b.Field+" is the method value "+b.Method+" (found "+got+")", x.Pos())
	}
}

// mayCarryRef: can a value of type t hold (directly or inside) a reference to a mutable heap object?
func (w *World) mayCarryRef(t types.Type, depth int) bool {
	if depth > 6 {
		return true
	}
	if w.immutable[types.TypeString(types.Unalias(t), nil)] {
		return false // immutable byte strings (net.IP, ...) are values of the model
	}
	switch x := t.Underlying().(type) {
	case *types.Basic:
		return x.Kind() == types.UnsafePointer
	case *types.Struct:
		for i := 0; i < x.NumFields(); i++ {
			if w.mayCarryRef(x.Field(i).Type(), depth+1) {
				return true
			}
		}
		return false
	case *types.Array:
		return w.mayCarryRef(x.Elem(), depth+1)
	case *types.Tuple:
		for i := 0; i < x.Len(); i++ {
			if w.mayCarryRef(x.At(i).Type(), depth+1) {
				return true
			}
		}
		return false
	}
	return true // pointers, slices, maps, channels, functions, interfaces, type parameters
}

// mutableFields: struct fields (Named.field) of the loaded module that some function writes outside the construction
// of the object: a store to the field, or an update / delete / element store through the map or slice stored in it.
func (w *World) mutableFields(prog []*ssa.Function) map[string]string {
	out := map[string]string{}
	fieldName := func(fa *ssa.FieldAddr) string {
		nt, ok := derefType(fa.X.Type()).(*types.Named)
		if !ok {
			return ""
		}
		st, ok := nt.Underlying().(*types.Struct)
		if !ok || nt.Obj().Pkg() == nil {
			return ""
		}
		return nt.Obj().Pkg().Path() + "." + nt.Obj().Name() + "." + st.Field(fa.Field).Name()
	}
	for _, fn := range prog {
		for _, b := range fn.Blocks {
			for _, in := range b.Instrs {
				fa, ok := in.(*ssa.FieldAddr)
				if !ok {
					continue
				}
				name := fieldName(fa)
				if name == "" || out[name] != "" {
					continue
				}
				if _, local := rootAlloc(fa.X); local {
					continue // the object is being built by this function
				}
				refs := fa.Referrers()
				if refs == nil {
					continue
				}
				for _, r := range *refs {
					switch x := r.(type) {
					case *ssa.Store:
						if x.Addr == fa {
							out[name] = shortFuncName(fn)
						}
					case *ssa.UnOp:
						if x.Op != token.MUL || x.Referrers() == nil {
							continue
						}
						for _, r2 := range *x.Referrers() {
							switch y := r2.(type) {
							case *ssa.MapUpdate:
								if y.Map == x {
									out[name] = shortFuncName(fn)
								}
							case *ssa.Call:
								if bi, ok := y.Call.Value.(*ssa.Builtin); ok && bi.Name() == "delete" && len(y.Call.Args) > 0 && y.Call.Args[0] == x {
									out[name] = shortFuncName(fn)
								}
							case *ssa.IndexAddr:
								if y.X == x && y.Referrers() != nil {
									for _, r3 := range *y.Referrers() {
										if st, ok := r3.(*ssa.Store); ok && st.Addr == y {
											out[name] = shortFuncName(fn)
										}
									}
								}
							}
						}
					}
				}
			}
		}
	}
	return out
}

// concurrentReads: the fields read by fn that are written somewhere (mutable) and not guarded by a mutex.
func (w *World) concurrentReads(fn *ssa.Function, mutable map[string]string) map[string]string {
	out := map[string]string{}
	for _, b := range fn.Blocks {
		for _, in := range b.Instrs {
			fa, ok := in.(*ssa.FieldAddr)
			if !ok {
				continue
			}
			nt, ok := derefType(fa.X.Type()).(*types.Named)
			if !ok {
				continue
			}
			st, ok := nt.Underlying().(*types.Struct)
			if !ok || nt.Obj().Pkg() == nil {
				continue
			}
			if _, local := rootAlloc(fa.X); local {
				continue
			}
			if _, _, g := w.guardedField(nt, fa.Field); g {
				continue
			}
			name := nt.Obj().Pkg().Path() + "." + nt.Obj().Name() + "." + st.Field(fa.Field).Name()
			if by := mutable[name]; by != "" {
				out[nt.Obj().Name()+"."+st.Field(fa.Field).Name()] = by
			}
		}
	}
	return out
}
