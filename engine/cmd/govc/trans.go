package main

// SSA -> verification conditions for one function under contract.

import (
	"regexp"
	"os"
	"fmt"
	"go/ast"
	"go/token"
	"go/types"
	"sort"
	"strings"

	"golang.org/x/tools/go/ssa"
)

type PathElem struct {
	field int      // field index (if idx == nil)
	idx   *Term    // array index
	ty    types.Type // container type
}

type LocalRef struct {
	alloc *ssa.Alloc
	path  []PathElem
}

type FieldOf struct {
	base *Term
	sty  types.Type
	idx  int
}

// Val is the symbolic value of an SSA register.
type Val struct {
	T       *Term
	Tuple   []Val
	Ref     *LocalRef
	FieldOf *FieldOf
	Fn      *ssa.Function
	Binds   []Val
	IterOf  *ssa.Range
	Imm     *ImmElem
	CellValue bool // T is the value of a snapshotted captured variable, not its address
}

// ImmElem: address of element i of an immutable byte-string-like slice value (net.IP, ...)
type ImmElem struct {
	s, i *Term
	elem types.Type
}

type Edge struct {
	from *ssa.BasicBlock
	cond *Term
	st   *State
}

type LoopInfo struct {
	Header    *ssa.BasicBlock
	Blocks    map[*ssa.BasicBlock]bool
	Ordinal   int
	Node      ast.Node
	RangeIdx  *ssa.Alloc
	RangeLen  ssa.Value
	RangeIter *ssa.Range
	Parent    *LoopInfo
	pre       *State
	preAt     *Term
	modLocals map[*ssa.Alloc]bool
	modArrs   map[string]*loopArr
	modIters  map[*ssa.Range]bool
	modGhost  map[string]*Sort
	head      *State // state right after the havoc at the loop head
	heldEntry *Term  // lockOnly: $held when the loop is entered
	wholeHavoc bool  // the loop head havocs the whole heap (lock-only functions; abstracted loops with unknown writes)
	// range-over-func loops synthesised at the iterator call
	RangeFunc *ssa.Function
	rfKeys    *Term
	rfGhost   string
	rfSort    *Sort
}

type Obligation struct {
	Name      string
	Func      string
	Kind      string
	PrefixLen int
	At        *Term
	Goal      *Term
	Pos       string
	Clause    string
	Cover     bool // a reachability probe: expected SAT
}

type FuncTr struct {
	localArr map[string]*Term // slice value (term) -> id of its array, for arrays made here that have not escaped
	lateCells map[*ssa.Alloc]bool
	bindHit map[int]bool
	anchorHit map[int]bool // anchored assertions that matched at least one call
	curCallArgs []Val
	curCallCommon *ssa.CallCommon
	lockOnly bool // verify the lock discipline only; everything else is abstracted (see locks.go)
	abstract bool // tolerate unmodelled instructions / callees by havoc (see locks.go)
	guardInfo map[ssa.Value]*guardRef
	lastCallRes *Val
	lastCallSig *types.Signature
	outerGhost map[string]*Term
	w   *World
	fn  *ssa.Function
	c   *Contract
	h   *HeapCtx
	d   *Decls
	pkg string

	cons   []string
	obls   []*Obligation
	vals   map[ssa.Value]Val
	edges  map[*ssa.BasicBlock][]Edge
	atBlk  map[*ssa.BasicBlock]*Term
	loops  map[*ssa.BasicBlock]*LoopInfo // by header
	loopOf map[*ssa.BasicBlock]*LoopInfo // innermost loop containing block
	init   *State
	params map[string]SV
	qn     int
	names  map[string]int
	defers []deferred
	curPos token.Pos
	results []SV // set when translating ensures
	ownMod  *ModSet
	overflow bool
	nObj    int
	pureParams map[string]bool
	asserted   map[string]bool
	nonNil     map[string]bool
	astLoops   []ast.Node
	ordOfAst   []int // contract ordinal of each source loop
	loopWarn   []string
	calledTrack map[string]bool // callee names mentioned in called(...) of this contract
	exitDef    map[*ssa.Alloc]bool // variables whose declaration is tracked for exit assertions
	exitHit    map[int]bool        // exit assertions translated at some return
	completeHit map[int]bool       // loops declared complete for which an early exit edge was found (and asserted unreachable)
	exitSkip   map[int]string      // exit assertions skipped at some return (identifier not in scope there)
	trackDef   map[*ssa.Alloc]*LoopInfo // variables declared in the body of a loop with end assertions: defined-in-this-iteration flags
	rfLoops    []*LoopInfo
	recvTy     types.Type
	elemsEager map[string]bool
	dupTag     string // suffix for value constants while a return block is duplicated per incoming edge
	allocID    map[string]*Term // object constants allocated by this function -> their allocation id term
	callOrd    map[ssa.Instruction]int // source-order rank of each call among same-named calls (`assert after f#n`)
	curCallNth int
}

type deferred struct {
	call  *ssa.Defer
	args  []Val
	fnv   Val
	at    *Term
	armed string // ghost flag of a conditional defer ("" = executed on every path)
}

func (ft *FuncTr) assume(at *Term, t *Term) {
	if t == nil || t.S == "true" {
		return
	}
	ft.cons = append(ft.cons, Implies(at, t).S)
}

func (ft *FuncTr) assumeRaw(t *Term) {
	if t == nil || t.S == "true" {
		return
	}
	ft.cons = append(ft.cons, t.S)
}

func (ft *FuncTr) posStr(p token.Pos) string {
	if !p.IsValid() {
		p = ft.curPos
	}
	if !p.IsValid() {
		return ""
	}
	pp := ft.w.fset.Position(p)
	return fmt.Sprintf("%s:%d", pp.Filename, pp.Line)
}

// srcText gives normalised source text at the position of an expression-ish node, for naming.
func (ft *FuncTr) oblName(kind, detail string) string {
	key := kind
	if detail != "" {
		key += "{" + detail + "}"
	}
	ft.names[key]++
	return fmt.Sprintf("%s#%s[%d]", ft.fnShort(), key, ft.names[key])
}

func (ft *FuncTr) fnShort() string { return shortFuncName(ft.fn) }

func shortFuncName(fn *ssa.Function) string {
	s := fn.String()
	s = strings.ReplaceAll(s, "go.universe.tf/metallb/", "")
	return s
}

func (ft *FuncTr) assert(at *Term, goal *Term, kind, detail, clause string, pos token.Pos) {
	if strings.HasPrefix(kind, "safety.") {
		// an identical safety goal already asserted (hence assumed) under the same reachability
		// condition is redundant; so is a goal that is literally true
		key := at.S + "|" + goal.S
		if ft.asserted == nil {
			ft.asserted = map[string]bool{}
		}
		if goal.S == "true" || ft.asserted[key] {
			return
		}
		ft.asserted[key] = true
	}
	if ft.lockOnly && !strings.HasPrefix(kind, "guard.") && kind != "binds" && !strings.Contains(clause, "lockstate(") && !strings.Contains(clause, "held(") && !strings.Contains(clause, "lockframe(") {
		// lock-discipline-only function: other goals are not claimed (and are not assumed either)
		return
	}
	if ft.abstract && (strings.HasPrefix(kind, "safety.") || (kind == "call.requires" && !strings.Contains(clause, "lockstate(") && !strings.Contains(clause, "held("))) {
		// abstracted function: absence of panics and callee preconditions other than the lock discipline are not
		// claimed (the heap is unknown after abstracted calls); the function's own ensures / asserts are
		ft.assume(at, goal)
		return
	}
	name := ft.oblName(kind, detail)
	if ft.abstract && kind == "call.requires" {
		// a precondition that mixes lock requirements with others: only the conjuncts about the lock state are claimed
		parts := splitAnd(goal.S, 64)
		if len(parts) == 0 {
			parts = []string{goal.S}
		}
		for k, p := range parts {
			if !strings.Contains(p, "$held") && !strings.HasPrefix(detail, "(*sync.") {
				continue // (preconditions of the sync primitives themselves are claimed in full)
			}
			g := &Term{p, SBool}
			o := &Obligation{Name: fmt.Sprintf("%s&%d", name, k+1), Func: ft.fn.String(), Kind: kind, PrefixLen: len(ft.cons), At: at, Goal: g, Pos: ft.posStr(pos), Clause: clause}
			ft.obls = append(ft.obls, o)
		}
		ft.assume(at, goal)
		return
	}
	if !strings.HasPrefix(kind, "safety.") && !noSplit {
		// a conjunction is discharged conjunct by conjunct (independently, from the same context): smaller, more stable queries
		if parts := splitAnd(goal.S, 24); len(parts) > 1 {
			for k, p := range parts {
				g := &Term{p, SBool}
				o := &Obligation{Name: fmt.Sprintf("%s&%d", name, k+1), Func: ft.fn.String(), Kind: kind, PrefixLen: len(ft.cons), At: at, Goal: g, Pos: ft.posStr(pos), Clause: clause}
				ft.obls = append(ft.obls, o)
			}
			ft.assume(at, goal)
			return
		}
	}
	o := &Obligation{Name: name, Func: ft.fn.String(), Kind: kind, PrefixLen: len(ft.cons), At: at, Goal: goal, Pos: ft.posStr(pos), Clause: clause}
	ft.obls = append(ft.obls, o)
	// assert-then-assume
	ft.assume(at, goal)
}

var noSplit = os.Getenv("GOVC_NOSPLIT") != ""

// splitAnd returns the top-level conjuncts of an s-expression "(and a b ...)" (nested ands flattened), or nil
// when the term is not a conjunction or has more than max conjuncts.
func splitAnd(s string, max int) []string {
	var out []string
	var rec func(t string) bool
	rec = func(t string) bool {
		if !strings.HasPrefix(t, "(and ") || !strings.HasSuffix(t, ")") {
			out = append(out, t)
			return len(out) <= max
		}
		body := t[5 : len(t)-1]
		depth, start := 0, -1
		inStr := false
		for i := 0; i < len(body); i++ {
			c := body[i]
			if c == '"' {
				inStr = !inStr
			}
			if inStr {
				if start < 0 {
					start = i
				}
				continue
			}
			switch {
			case c == '(':
				if depth == 0 && start < 0 {
					start = i
				}
				depth++
			case c == ')':
				depth--
				if depth == 0 && start >= 0 && body[start] == '(' {
					if !rec(body[start : i+1]) {
						return false
					}
					start = -1
				}
			case c == ' ' || c == '\n' || c == '\t':
				if depth == 0 && start >= 0 {
					if !rec(body[start:i]) {
						return false
					}
					start = -1
				}
			default:
				if depth == 0 && start < 0 {
					start = i
				}
			}
		}
		if start >= 0 {
			if !rec(body[start:]) {
				return false
			}
		}
		return true
	}
	if !strings.HasPrefix(s, "(and ") {
		return nil
	}
	if !rec(s) {
		return nil
	}
	return out
}

func (ft *FuncTr) cover(at *Term, kind, detail string) {
	o := &Obligation{Name: ft.oblName(kind, detail), Func: ft.fn.String(), Kind: kind, PrefixLen: len(ft.cons), At: at, Goal: TFalse, Cover: true}
	ft.obls = append(ft.obls, o)
}

// ---------- loops ----------

func (ft *FuncTr) findLoops() error {
	fn := ft.fn
	ft.loops = map[*ssa.BasicBlock]*LoopInfo{}
	ft.loopOf = map[*ssa.BasicBlock]*LoopInfo{}
	for _, b := range fn.Blocks {
		for _, s := range b.Succs {
			if s.Dominates(b) { // back edge b -> s
				li := ft.loops[s]
				if li == nil {
					li = &LoopInfo{Header: s, Blocks: map[*ssa.BasicBlock]bool{s: true}}
					ft.loops[s] = li
				}
				// natural loop: nodes that reach b without passing s
				var stack []*ssa.BasicBlock
				if !li.Blocks[b] {
					li.Blocks[b] = true
					stack = append(stack, b)
				}
				for len(stack) > 0 {
					x := stack[len(stack)-1]
					stack = stack[:len(stack)-1]
					for _, p := range x.Preds {
						if !li.Blocks[p] {
							li.Blocks[p] = true
							stack = append(stack, p)
						}
					}
				}
			}
		}
	}
	// nesting: innermost loop per block = smallest loop containing it
	var all []*LoopInfo
	for _, l := range ft.loops {
		all = append(all, l)
	}
	sort.Slice(all, func(i, j int) bool { return len(all[i].Blocks) < len(all[j].Blocks) })
	for _, l := range all {
		for b := range l.Blocks {
			if ft.loopOf[b] == nil {
				ft.loopOf[b] = l
			}
		}
	}
	for _, l := range all {
		for _, m := range all {
			if m != l && len(m.Blocks) > len(l.Blocks) && m.Blocks[l.Header] {
				if l.Parent == nil || len(m.Blocks) < len(l.Parent.Blocks) {
					l.Parent = m
				}
			}
		}
	}
	// recognise range loops
	for _, l := range all {
		h := l.Header
		for _, in := range h.Instrs {
			if nx, ok := in.(*ssa.Next); ok {
				if r, ok := nx.Iter.(*ssa.Range); ok {
					if _, ism := r.X.Type().Underlying().(*types.Map); ism {
						l.RangeIter = r
					}
				}
			}
		}
		if h.Comment == "rangeindex.loop" && len(h.Instrs) >= 4 {
			if ld, ok := h.Instrs[0].(*ssa.UnOp); ok && ld.Op == token.MUL {
				if al, ok := ld.X.(*ssa.Alloc); ok && al.Comment == "rangeindex" {
					l.RangeIdx = al
					for _, in := range h.Instrs {
						if bo, ok := in.(*ssa.BinOp); ok && bo.Op == token.LSS {
							l.RangeLen = bo.Y
						}
					}
				}
			}
		}
	}
	// ordinals from the AST
	syn := fn.Syntax()
	var astLoops []ast.Node
	if syn != nil {
		var body *ast.BlockStmt
		switch x := syn.(type) {
		case *ast.FuncDecl:
			body = x.Body
		case *ast.FuncLit:
			body = x.Body
		}
		if body != nil {
			ast.Inspect(body, func(n ast.Node) bool {
				switch n.(type) {
				case *ast.FuncLit:
					return false
				case *ast.ForStmt, *ast.RangeStmt:
					astLoops = append(astLoops, n)
				}
				return true
			})
		}
	}
	ft.astLoops = astLoops
	// contract ordinals: by default the N-th loop in source order; 'loop N binds x' ties ordinal N to the (k-th)
	// source loop declaring x, so that inserting or removing an unrelated loop does not re-target the invariants
	ft.ordOfAst = make([]int, len(astLoops))
	for i := range astLoops {
		ft.ordOfAst[i] = i + 1
	}
	if ft.c != nil && len(ft.c.LoopBinds) > 0 {
		for i := range astLoops {
			ft.ordOfAst[i] = 100 + i + 1
		}
		var ns []int
		for n := range ft.c.LoopBinds {
			ns = append(ns, n)
		}
		sort.Ints(ns)
		for _, n := range ns {
			name, k := ft.c.LoopBinds[n], 1
			if i := strings.Index(name, "#"); i >= 0 {
				fmt.Sscanf(name[i+1:], "%d", &k)
				name = name[:i]
			}
			cnt, found := 0, -1
			for i, a := range astLoops {
				if loopDeclares(a, name) {
					cnt++
					if cnt == k {
						found = i
					}
				}
			}
			if found < 0 && n >= 1 && n <= len(astLoops) && ft.ordOfAst[n-1] > 100 {
				found = n - 1 // the variable was renamed: fall back to the position
			}
			if found < 0 {
				// the loop is gone: its invariants have nothing to attach to (reported like an unmatched anchored
				// assertion: undecided unless an obligation fails)
				ft.loopWarn = append(ft.loopWarn, fmt.Sprintf("loop %d of the contract is the loop over %q, which the source no longer has", n, ft.c.LoopBinds[n]))
				continue
			}
			ft.ordOfAst[found] = n
		}
	}
	// range-over-func loops have no SSA loop in this function: reserve them
	rfNodes := map[ast.Node]bool{}
	for _, an := range fn.AnonFuncs {
		if an.Synthetic == "range-over-func yield" {
			if n := an.Syntax(); n != nil {
				for _, a := range astLoops {
					if a.Pos() == n.Pos() {
						rfNodes[a] = true
					}
				}
			}
		}
	}
	// match each SSA loop to the smallest AST loop containing all its positioned instructions
	used := map[ast.Node]bool{}
	for _, l := range all {
		var lo, hi token.Pos
		for b := range l.Blocks {
			for _, in := range b.Instrs {
				if _, isdbg := in.(*ssa.DebugRef); isdbg {
					continue
				}
				p := in.Pos()
				if !p.IsValid() {
					continue
				}
				if !lo.IsValid() || p < lo {
					lo = p
				}
				if p > hi {
					hi = p
				}
			}
		}
		var best ast.Node
		for _, a := range astLoops {
			if used[a] || rfNodes[a] {
				continue
			}
			if lo.IsValid() && (a.Pos() > lo || a.End() < hi) {
				continue
			}
			if best == nil || (a.End()-a.Pos()) < (best.End()-best.Pos()) {
				best = a
			}
		}
		if best == nil {
			return unsupported(fmt.Sprintf("cannot match SSA loop at block %d to a source loop", l.Header.Index))
		}
		used[best] = true
		l.Node = best
		for i, a := range astLoops {
			if a == best {
				l.Ordinal = ft.ordOfAst[i]
			}
		}
	}
	if len(all) != len(astLoops) {
		// loops that never iterate (e.g. `for { return }`) have no back edge; tolerate fewer SSA loops
		if len(all) > len(astLoops) {
			return unsupported("more SSA loops than source loops")
		}
	}
	return nil
}

// loopDeclares: the loop statement declares (or assigns in its header) a variable of this name
func loopDeclares(n ast.Node, name string) bool {
	is := func(e ast.Expr) bool {
		id, ok := e.(*ast.Ident)
		return ok && id.Name == name
	}
	switch x := n.(type) {
	case *ast.RangeStmt:
		return (x.Key != nil && is(x.Key)) || (x.Value != nil && is(x.Value))
	case *ast.ForStmt:
		if as, ok := x.Init.(*ast.AssignStmt); ok {
			for _, l := range as.Lhs {
				if is(l) {
					return true
				}
			}
		}
	}
	return false
}

func defFlag(a *ssa.Alloc) string { return fmt.Sprintf("$def_%s_%d", a.Comment, a.Pos()) }

// resetDefFlags: at a loop head no body variable of the coming iteration has been declared yet
func (ft *FuncTr) resetDefFlags(l *LoopInfo, st *State) {
	for a, al := range ft.trackDef {
		if al == l {
			st.ghost[defFlag(a)] = TFalse
		}
	}
}

func (ft *FuncTr) loopByOrdinal(n int) *LoopInfo {
	for _, l := range ft.loops {
		if l.Ordinal == n {
			return l
		}
	}
	for _, l := range ft.rfLoops {
		if l.Ordinal == n {
			return l
		}
	}
	return nil
}

// ---------- identifiers in specs ----------

func (ft *FuncTr) allocByName(name string, at token.Pos) *ssa.Alloc {
	var cands []*ssa.Alloc
	for _, b := range ft.fn.Blocks {
		for _, in := range b.Instrs {
			if al, ok := in.(*ssa.Alloc); ok && al.Comment == name {
				cands = append(cands, al)
			}
		}
	}
	if len(cands) == 0 {
		return nil
	}
	if len(cands) == 1 {
		return cands[0]
	}
	// disambiguate through go/types scopes
	p := ft.w.pkgOfFunc(ft.fn)
	if p != nil && at.IsValid() {
		if sc := p.Types.Scope().Innermost(at); sc != nil {
			if _, obj := sc.LookupParent(name, at); obj != nil {
				for _, c := range cands {
					if c.Pos() == obj.Pos() {
						return c
					}
				}
			}
		}
	}
	// fall back: latest declared before 'at'
	var best *ssa.Alloc
	for _, c := range cands {
		if c.Pos() <= at && (best == nil || c.Pos() > best.Pos()) {
			best = c
		}
	}
	if best == nil {
		best = cands[0]
	}
	return best
}

func (ft *FuncTr) specIdent(e *SpecEnv, name string) (SV, bool) {
	// loop context: iteration ghosts and locals (under old(...), parameters denote their entry values)
	if e.loop != nil && e.st == ft.init {
		if v, ok := ft.params[name]; ok {
			return v, true
		}
	}
	if e.loop != nil {
		l := e.loop
		switch name {
		case "iter":
			if l.RangeIdx != nil {
				return SV{T: Add(ft.localGet(e.st, l.RangeIdx), IntLit(1)), Ty: tInt}, true
			}
		case "visited":
			if l.RangeIter != nil {
				return SV{T: ft.iterVisited(e.st, l.RangeIter)}, true
			}
			if l.RangeFunc != nil {
				return SV{T: ft.h.ghostVar(e.st, l.rfGhost, l.rfSort)}, true
			}
		case "keys":
			if l.RangeFunc != nil {
				return SV{T: l.rfKeys}, true
			}
		}
		var pos token.Pos
		switch n := l.Node.(type) {
		case *ast.ForStmt:
			pos = n.Body.Lbrace + 1
		case *ast.RangeStmt:
			pos = n.Body.Lbrace + 1
		}
		if sv, ok := ft.localSV(e, name, pos); ok {
			return sv, true
		}
	} else if e.pos.IsValid() && e.st != ft.init {
		if sv, ok := ft.localSV(e, name, e.pos); ok {
			return sv, true
		}
	}
	if false {
		var pos token.Pos
		if al := ft.allocByName(name, pos); al != nil {
			ty := al.Type().(*types.Pointer).Elem()
			if al.Heap && ft.vals[al].Ref == nil {
				addr := ft.vals[al].T
				if addr == nil {
					return SV{}, false
				}
				return SV{Addr: addr, Ty: ty}, true
			}
			return SV{T: ft.localGet(e.st, al), Ty: ty}, true
		}
	}
	if v, ok := ft.params[name]; ok {
		return v, true
	}
	if e.loop == nil && ft.results != nil {
		res := ft.fn.Signature.Results()
		for i := 0; i < res.Len(); i++ {
			n := res.At(i).Name()
			if n == name || (n == "" && (name == fmt.Sprintf("result%d", i) || (res.Len() == 1 && name == "result"))) || (res.Len() == 1 && name == "result") {
				return ft.results[i], true
			}
		}
	}
	// free variables of closures
	for _, fv := range ft.fn.FreeVars {
		if fv.Name() == name {
			v := ft.vals[fv]
			ty := fv.Type().(*types.Pointer).Elem()
			return SV{Addr: v.T, Ty: ty}, true
		}
	}
	// variables of the enclosing function that this closure does not capture: the contract may still name them;
	// inside the closure they are arbitrary values of their type (sound: the contract is proved for every value),
	// at use sites in the enclosing function they denote that function's variable
	if par := ft.fn.Parent(); par != nil {
		if ty := outerVarType(par, name); ty != nil {
			if ft.outerGhost == nil {
				ft.outerGhost = map[string]*Term{}
			}
			t, ok := ft.outerGhost[name]
			if !ok {
				t = ft.d.Fresh("outer_"+name, ft.w.sortOf(ft.d, ty))
				ft.outerGhost[name] = t
			}
			return SV{T: t, Ty: ty}, true
		}
	}
	return SV{}, false
}

// outerVarType finds the type of the parameter or named local `name` of fn (nil when there is none or it is ambiguous).
func outerVarType(fn *ssa.Function, name string) types.Type {
	for _, p := range fn.Params {
		if p.Name() == name {
			return p.Type()
		}
	}
	var found types.Type
	for _, b := range fn.Blocks {
		for _, in := range b.Instrs {
			if al, ok := in.(*ssa.Alloc); ok && al.Comment == name {
				ty := al.Type().(*types.Pointer).Elem()
				if found != nil && !types.Identical(found, ty) {
					return nil
				}
				found = ty
			}
		}
	}
	return found
}

func (ft *FuncTr) iterVisited(st *State, r *ssa.Range) *Term {
	if t, ok := st.iters[r]; ok {
		return t
	}
	mt := r.X.Type().Underlying().(*types.Map)
	ks := ft.w.sortOf(ft.d, mt.Key())
	return ConstArray(SArray(ks, SBool), TFalse)
}

func (ft *FuncTr) localGet(st *State, a *ssa.Alloc) *Term {
	if t, ok := st.locals[a]; ok {
		return t
	}
	ty := a.Type().(*types.Pointer).Elem()
	return ft.w.zero(ft.d, ty)
}

func (ft *FuncTr) newEnv(st *State) *SpecEnv {
	return &SpecEnv{h: ft.h, w: ft.w, pkg: ft.w.pkgOfFunc(ft.fn), vars: map[string]SV{}, st: st, old: ft.init, ft: ft, qn: &ft.qn}
}

// ---------- driver ----------

type FuncResult struct {
	Warn   []string // clauses that could not be placed (reported as undecided; obligations are kept)
	Fn     *ssa.Function
	Obls   []*Obligation
	Decls  string
	Cons   []string
	Err    error
	Assumptions []string
}

// verifyFunc translates fn; when the specification turns out to use slice-membership sets (elems_*),
// the translation is repeated so that plain stores emitted earlier also carry their elems frame facts.
func verifyFunc(w *World, fn *ssa.Function, c *Contract) *FuncResult {
	res, used := verifyFuncPass(w, fn, c, nil)
	if len(used) > 0 && res.Err == nil {
		res, _ = verifyFuncPass(w, fn, c, used)
	}
	return res
}

func verifyFuncPass(w *World, fn *ssa.Function, c *Contract, eager map[string]bool) (res *FuncResult, usedElems map[string]bool) {
	res = &FuncResult{Fn: fn}
	d := NewDecls()
	ft := &FuncTr{w: w, fn: fn, c: c, d: d, vals: map[ssa.Value]Val{}, edges: map[*ssa.BasicBlock][]Edge{},
		atBlk: map[*ssa.BasicBlock]*Term{}, names: map[string]int{}, params: map[string]SV{}, pureParams: map[string]bool{}}
	ft.h = &HeapCtx{w: w, d: d, arrSorts: map[string]*Sort{}}
	ft.h.emit = func(t *Term) { ft.assumeRaw(t) }
	ft.elemsEager = eager
	ft.overflow = c.Overflow
	ft.lockOnly = c.LockOnly
	ft.abstract = c.Abstract
	defer func() {
		if r := recover(); r != nil {
			switch v := r.(type) {
			case unsupportedErr:
				res.Err = fmt.Errorf("%s: %v (at %s)", fn.String(), v, ft.posStr(ft.curPos))
			case specErr:
				res.Err = fmt.Errorf("%s: spec error: %v", fn.String(), v.msg)
			default:
				panic(r)
			}
		}
		res.Obls = ft.obls
		res.Cons = ft.cons
		res.Decls = d.Text()
		if eager == nil {
			usedElems = map[string]bool{}
			d.mu.Lock()
			for n := range d.seen {
				if strings.HasPrefix(n, "elems_") && !strings.HasSuffix(n, "$ax") {
					usedElems[strings.TrimPrefix(n, "elems_")] = true
				}
			}
			d.mu.Unlock()
		}
	}()
	if len(fn.Blocks) == 0 {
		res.Err = fmt.Errorf("%s: function has no body", fn.String())
		return
	}
	w.tparams = nil
	for f := fn; f != nil; f = f.Parent() {
		if tps := f.TypeParams(); tps != nil && tps.Len() > 0 {
			w.tparams = map[string]types.Type{}
			for i := 0; i < tps.Len(); i++ {
				w.tparams[tps.At(i).Obj().Name()] = tps.At(i)
			}
		}
	}
	if err := ft.run(); err != nil {
		res.Err = fmt.Errorf("%s: %v (at %s)", fn.String(), err, ft.posStr(ft.curPos))
	}
	if res.Err == nil {
		// an anchored assertion that matched no call was never checked: that is a hole, not a pass
		// (reported as undecided; the function's other obligations are still checked)
		for _, lw := range ft.loopWarn {
			res.Warn = append(res.Warn, fmt.Sprintf("%s: %s", fn.String(), lw))
		}
		// a loop declared complete that has no early exit edge at all: record the clause as one (trivial) obligation, so
		// that it is counted and named in the evidence
		for _, l := range ft.loops {
			if ls := c.Loops[l.Ordinal]; ls != nil && ls.Complete != nil && !ft.completeHit[l.Ordinal] {
				id := ls.Complete.Name
				if id == "" {
					id = "1"
				}
				ft.assert(TFalse, TFalse, fmt.Sprintf("loop%d.complete[%s]", l.Ordinal, id), "", ls.Complete.Text+" (no early exit edge in the code)", token.NoPos)
			}
		}
		// an exit assertion whose identifiers are in scope at no return at all was never checked (a renamed or removed
		// local): a hole, not a pass
		for i, ex := range c.Exits {
			if !ft.exitHit[i] && ft.exitSkip[i] != "" {
				res.Warn = append(res.Warn, fmt.Sprintf("%s: exit assert [%s] (%s:%d) could be checked at no return: %s", fn.String(), ex.Name, ex.File, ex.Line, ft.exitSkip[i]))
			}
		}
		for i, b := range c.Binds {
			if !ft.bindHit[i] {
				res.Warn = append(res.Warn, fmt.Sprintf("%s: binds %s (%s:%d) matched no store in the function", fn.String(), b.Field, b.File, b.Line))
			}
		}
		for i, a := range c.Anchored {
			if !ft.anchorHit[i] {
				res.Warn = append(res.Warn, fmt.Sprintf("%s: assert %s %s (%s:%d) matched no call in the function", fn.String(), map[bool]string{true: "before", false: "after"}[a.Before], a.Callee, a.C.File, a.C.Line))
			}
		}
	}
	return
}

func (ft *FuncTr) run() error {
	fn := ft.fn
	if err := ft.findLoops(); err != nil {
		return err
	}
	ft.init = newState()
	st := newState()
	// conditional defers start unarmed
	for _, bb := range fn.Blocks {
		for _, in := range bb.Instrs {
			if d, ok := in.(*ssa.Defer); ok {
				st.ghost[deferFlag(d)] = TFalse
			}
		}
	}
	// variables declared inside the body of a loop that has end assertions carry a "declared in this iteration" flag
	ft.trackDef = map[*ssa.Alloc]*LoopInfo{}
	for _, l := range ft.loops {
		ls := ft.c.Loops[l.Ordinal]
		if ls == nil || len(ls.EndAsserts) == 0 {
			continue
		}
		for bb := range l.Blocks {
			for _, in := range bb.Instrs {
				if a, ok := in.(*ssa.Alloc); ok {
					ft.trackDef[a] = l
					st.ghost[defFlag(a)] = TFalse
				}
			}
		}
	}
	// called(name): has a call to `name` been made on this path (exit / loop-end / anchored assertions, postconditions)
	ft.calledTrack = map[string]bool{}
	{
		re := regexp.MustCompile(`called\(([A-Za-z_][A-Za-z0-9_]*)\)`)
		scan := func(cs []Clause) {
			for _, c := range cs {
				for _, m := range re.FindAllStringSubmatch(c.Text, -1) {
					ft.calledTrack[m[1]] = true
				}
			}
		}
		scan(ft.c.Exits)
		scan(ft.c.Ensures)
		for _, ls := range ft.c.Loops {
			scan(ls.EndAsserts)
			scan(ls.Invariants)
		}
		for _, a := range ft.c.Anchored {
			scan([]Clause{a.C})
		}
		for n := range ft.calledTrack {
			st.ghost["$called_"+n] = TFalse
		}
	}
	if len(ft.c.Exits) > 0 {
		// exit assertions name locals: a variable that has not been declared on a path makes the clause vacuous there
		ft.exitDef = map[*ssa.Alloc]bool{}
		for _, bb := range fn.Blocks {
			for _, in := range bb.Instrs {
				if a, ok := in.(*ssa.Alloc); ok && !ft.exitDef[a] {
					ft.exitDef[a] = true
					if _, tracked := ft.trackDef[a]; !tracked {
						st.ghost[defFlag(a)] = TFalse
					}
				}
			}
		}
	}
	// world axioms
	if err := ft.addAxioms(); err != nil {
		return err
	}
	ft.assumeRaw(Le(IntLit(0), ft.h.nextID(ft.init)))
	if len(ft.w.guarded) > 0 {
		// lock state is 0/1/2, and mutexes inside objects not allocated yet are free
		hp := &Term{"hp", SPtr}
		h0 := ft.h.ghostVar(ft.init, "$held", SArray(SPtr, SInt))
		ft.assumeRaw(Forall([]Bound{{"hp", SPtr}}, And(Le(IntLit(0), Select(h0, hp)), Le(Select(h0, hp), IntLit(2)),
			Implies(Le(ft.h.nextID(ft.init), PObjID(hp)), Eq(Select(h0, hp), IntLit(0)))), []*Term{Select(h0, hp)}))
	}
	// parameters
	for pi, p := range fn.Params {
		s := ft.w.sortOf(ft.d, p.Type())
		pname := "p_" + sanitize(p.Name())
		if p.Name() == "_" || p.Name() == "" {
			pname = fmt.Sprintf("p_blank%d", pi) // several blank parameters may have different sorts
		}
		t := ft.d.Const(pname, s)
		ft.vals[p] = Val{T: t}
		ft.params[p.Name()] = SV{T: t, Ty: p.Type()}
		ft.assumeRaw(ft.typeInv(ft.init, t, p.Type()))
	}
	for _, fv := range fn.FreeVars {
		t := ft.d.Const("fv_"+sanitize(fv.Name()), SPtr)
		ft.vals[fv] = Val{T: t}
		ft.assumeRaw(And(Not(IsNil(t)), Lt(PObjID(t), ft.h.nextID(ft.init))))
	}
	// requires
	env := ft.newEnv(ft.init)
	var side []*Term
	env.side = &side
	for i, r := range ft.c.Requires {
		t, err := env.trBool(r.E)
		if err != nil {
			return fmt.Errorf("requires[%d] (%s:%d): %v", i+1, r.File, r.Line, err)
		}
		ft.assumeRaw(t)
	}
	for _, s := range side {
		ft.assumeRaw(s)
	}
	entryAt := ft.d.Const("at_entry", SBool)
	ft.assumeRaw(entryAt)
	// vacuity probe for the precondition
	if len(ft.c.Requires) > 0 {
		ft.cover(entryAt, "cover.requires", "")
	}
	// loop mods
	for _, l := range ft.loops {
		if ft.lockOnly {
			ft.computeLoopModsLockOnly(l)
			l.wholeHavoc = true
			continue
		}
		if err := ft.computeLoopMods(l); err != nil {
			if !ft.abstract {
				return err
			}
			// abstracted function: a loop whose writes cannot be determined (callee without contract) havocs the heap
			ft.computeLoopModsLockOnly(l)
			l.wholeHavoc = true
		}
	}
	// own modifies (declared) for frame checking
	if ft.c.ModDeclared && !ft.c.ModAll {
		envM := ft.newEnv(ft.init)
		ms, err := ft.h.resolveMods(envM, ft.w.pkgOfFunc(fn), ft.c.Modifies)
		if err != nil {
			return err
		}
		ft.ownMod = ms
	}
	for _, pp := range ft.c.PureParams {
		ft.pureParams[pp] = true
	}
	order := ft.rpo()
	ft.edges[fn.Blocks[0]] = []Edge{{nil, entryAt, st}}
	for _, b := range order {
		if err := ft.block(b); err != nil {
			return err
		}
	}
	return nil
}

func (ft *FuncTr) addAxioms() error {
	myPkg := ""
	if p := ft.w.pkgOfFunc(ft.fn); p != nil {
		myPkg = p.PkgPath
	}
	for _, ax := range ft.w.axioms {
		if strings.HasPrefix(ax.Pkg, "go.universe.tf/metallb") && ax.Pkg != myPkg {
			continue // axioms of a module package's contract file apply to that package's functions
		}
		env := &SpecEnv{h: ft.h, w: ft.w, pkg: ft.w.pkgs[ax.Pkg], vars: map[string]SV{}, st: ft.init, old: ft.init, qn: &ft.qn}
		if env.pkg == nil {
			env.pkg = ft.w.pkgOfFunc(ft.fn)
		}
		t, err := env.trBool(ax.E)
		if err != nil {
			return fmt.Errorf("axiom %s (%s:%d): %v", ax.Name, ax.File, ax.Line, err)
		}
		ft.assumeRaw(t)
	}
	return nil
}

// typeInv: typing facts of a value (ranges, allocatedness of references)
func (ft *FuncTr) typeInv(st *State, t *Term, ty types.Type) *Term {
	r := ft.w.rangeAssume(ft.d, t, ty)
	nx := ft.h.nextID(st)
	switch u := ty.Underlying().(type) {
	case *types.Pointer, *types.Map, *types.Chan:
		r = And(r, Or(IsNil(t), Lt(PObjID(t), nx)))
	case *types.Slice:
		r = And(r, Or(IsNil(SlcArr(t)), Lt(PObjID(SlcArr(t)), nx)))
	case *types.Struct:
		si := ft.w.structInfo(ty)
		for _, i := range si.Fields {
			fty := u.Field(i).Type()
			ft.w.sortOf(ft.d, fty)
			fv := mk(ft.w.sortOf(ft.d, fty), si.sel(i), t)
			r = And(r, ft.typeInv(st, fv, fty))
		}
	}
	return r
}

func (ft *FuncTr) rpo() []*ssa.BasicBlock {
	seen := map[*ssa.BasicBlock]bool{}
	var post []*ssa.BasicBlock
	var dfs func(b *ssa.BasicBlock)
	dfs = func(b *ssa.BasicBlock) {
		seen[b] = true
		for _, s := range b.Succs {
			if s.Dominates(b) { // back edge
				continue
			}
			if !seen[s] {
				dfs(s)
			}
		}
		post = append(post, b)
	}
	dfs(ft.fn.Blocks[0])
	for i, j := 0, len(post)-1; i < j; i, j = i+1, j-1 {
		post[i], post[j] = post[j], post[i]
	}
	return post
}

// merge incoming edges of block b into an entry state and reachability condition
func (ft *FuncTr) merge(b *ssa.BasicBlock, es []Edge) (*State, *Term) {
	if len(es) == 1 {
		at := ft.d.Const(fmt.Sprintf("at_b%d", b.Index), SBool)
		ft.assumeRaw(Eq(at, es[0].cond))
		return es[0].st.clone(), at
	}
	var conds []*Term
	for _, e := range es {
		conds = append(conds, e.cond)
	}
	at := ft.d.Const(fmt.Sprintf("at_b%d", b.Index), SBool)
	ft.assumeRaw(Eq(at, Or(conds...)))
	return ft.mergeStates(b, es), at
}

// mergeStates joins the states of several edges (fresh constants guarded by the edge conditions).
func (ft *FuncTr) mergeStates(b *ssa.BasicBlock, es []Edge) *State {
	st := newState()
	// locals
	lk := map[*ssa.Alloc]bool{}
	for _, e := range es {
		for k := range e.st.locals {
			lk[k] = true
		}
	}
	for _, k := range sortedAllocs(lk) {
		var ts []*Term
		same := true
		for _, e := range es {
			t := ft.localGet(e.st, k)
			ts = append(ts, t)
			if t.S != ts[0].S {
				same = false
			}
		}
		if same {
			st.locals[k] = ts[0]
			continue
		}
		nv := ft.d.Fresh(fmt.Sprintf("l_%s_b%d", k.Comment, b.Index), ts[0].Sort)
		for i, e := range es {
			ft.assume(e.cond, Eq(nv, ts[i]))
		}
		st.locals[k] = nv
	}
	hk := map[string]bool{}
	for _, e := range es {
		for k := range e.st.heap {
			hk[k] = true
		}
	}
	st.epoch = es[0].st.epoch
	for _, e := range es {
		if e.st.epoch != st.epoch {
			// different whole-heap havocs on the joined paths: every known array is merged explicitly and
			// arrays first read later are unconstrained
			for k := range ft.h.arrSorts {
				hk[k] = true
			}
			ft.h.epochCtr++
			st.epoch = ft.h.epochCtr
			break
		}
	}
	for _, k := range sortedBoolKeys(hk) {
		srt := ft.h.arrSorts[k]
		var ts []*Term
		same := true
		for _, e := range es {
			t := ft.h.arr(e.st, k, srt)
			ts = append(ts, t)
			if t.S != ts[0].S {
				same = false
			}
		}
		if same {
			st.heap[k] = ts[0]
			continue
		}
		nv := ft.d.Fresh(fmt.Sprintf("%s_b%d", k, b.Index), srt)
		for i, e := range es {
			ft.assume(e.cond, Eq(nv, ts[i]))
		}
		st.heap[k] = nv
		var ecs []*Term
		for _, e := range es {
			ecs = append(ecs, e.cond)
		}
		ft.h.noteMergeHop(nv, ts, ecs)
	}
	gk := map[string]*Sort{}
	for _, e := range es {
		for k, v := range e.st.ghost {
			gk[k] = v.Sort
		}
	}
	for _, k := range sortedKeys(gk) {
		var ts []*Term
		same := true
		for _, e := range es {
			t := ft.h.ghostVar(e.st, k, gk[k])
			ts = append(ts, t)
			if t.S != ts[0].S {
				same = false
			}
		}
		if same {
			st.ghost[k] = ts[0]
			continue
		}
		nv := ft.d.Fresh(fmt.Sprintf("g_%s_b%d", k, b.Index), gk[k])
		for i, e := range es {
			ft.assume(e.cond, Eq(nv, ts[i]))
		}
		st.ghost[k] = nv
	}
	ik := map[*ssa.Range]bool{}
	for _, e := range es {
		for k := range e.st.iters {
			ik[k] = true
		}
	}
	for _, k := range sortedRanges(ik) {
		var ts []*Term
		same := true
		for _, e := range es {
			t := ft.iterVisited(e.st, k)
			ts = append(ts, t)
			if t.S != ts[0].S {
				same = false
			}
		}
		if same {
			st.iters[k] = ts[0]
			continue
		}
		nv := ft.d.Fresh(fmt.Sprintf("visited_b%d", b.Index), ts[0].Sort)
		for i, e := range es {
			ft.assume(e.cond, Eq(nv, ts[i]))
		}
		st.iters[k] = nv
	}
	return st
}

func sortedBoolKeys(m map[string]bool) []string {
	var ks []string
	for k := range m {
		ks = append(ks, k)
	}
	sort.Strings(ks)
	return ks
}

func (ft *FuncTr) invariants(l *LoopInfo) []Clause {
	var out []Clause
	if ls := ft.c.Loops[l.Ordinal]; ls != nil {
		out = append(out, ls.Invariants...)
	}
	return out
}

// autoInv: invariants the engine adds by itself (proved like the others)
func (ft *FuncTr) autoInv(l *LoopInfo, st *State) []*Term {
	var out []*Term
	if l.RangeIdx != nil && l.RangeLen != nil {
		idx := ft.localGet(st, l.RangeIdx)
		ln := ft.vals[l.RangeLen].T
		if ln != nil {
			out = append(out, And(Le(IntLit(-1), idx), Or(Lt(idx, ln), Eq(idx, IntLit(-1)))))
		}
	}
	return out
}

func (ft *FuncTr) block(b *ssa.BasicBlock) error {
	es := ft.edges[b]
	if len(es) == 0 {
		return nil // unreachable
	}
	var st *State
	var at *Term
	if l := ft.loops[b]; l != nil && l.wholeHavoc {
		pre, preAt := ft.merge(b, es)
		l.pre, l.preAt = pre, preAt
		l.heldEntry = ft.h.ghostVar(pre, "$held", SArray(SPtr, SInt))
		// declared invariants of a whole-havoc loop: established here, assumed of the havoced head state below,
		// maintained at the back edge (goEdge)
		if invs := ft.invariants(l); len(invs) > 0 {
			env := ft.newEnv(pre)
			env.loop = l
			env.pre = pre
			for i, inv := range invs {
				t, err := env.trBool(inv.E)
				if err != nil {
					return fmt.Errorf("loop %d invariant[%d] (%s:%d): %v", l.Ordinal, i+1, inv.File, inv.Line, err)
				}
				ft.assert(preAt, t, fmt.Sprintf("loop%d.inv[%s].establish", l.Ordinal, clauseID(inv, i)), "", inv.Text, b.Instrs[0].Pos())
			}
		}
		st = pre.clone()
		for _, a := range sortedAllocs(l.modLocals) {
			if a.Heap {
				continue
			}
			ty := a.Type().(*types.Pointer).Elem()
			st.locals[a] = ft.d.Fresh(fmt.Sprintf("l_%s_h%d", a.Comment, b.Index), ft.w.sortOf(ft.d, ty))
		}
		old := ft.h.nextID(pre)
		ft.h.havocAll(st)
		nx := ft.d.Fresh("g_next_h", SInt)
		ft.assume(preAt, Le(old, nx))
		st.ghost["$next"] = nx
		for _, r := range sortedRanges(l.modIters) {
			mt := r.X.Type().Underlying().(*types.Map)
			st.iters[r] = ft.d.Fresh(fmt.Sprintf("visited_h%d", b.Index), SArray(ft.w.sortOf(ft.d, mt.Key()), SBool))
		}
		for _, n := range sortedKeys(l.modGhost) {
			st.ghost[n] = ft.d.Fresh(fmt.Sprintf("g_%s_h%d", n, b.Index), l.modGhost[n])
		}
		at = preAt
		if invs := ft.invariants(l); len(invs) > 0 {
			env := ft.newEnv(st)
			env.loop = l
			env.pre = pre
			for i, inv := range invs {
				t, err := env.trBool(inv.E)
				if err != nil {
					return fmt.Errorf("loop %d invariant[%d] (%s:%d): %v", l.Ordinal, i+1, inv.File, inv.Line, err)
				}
				ft.assume(preAt, t)
			}
		}
		ft.resetDefFlags(l, st)
		l.head = st.clone()
	} else if l := ft.loops[b]; l != nil {
		pre, preAt := ft.merge(b, es)
		l.pre, l.preAt = pre, preAt
		// establish
		env := ft.newEnv(pre)
		env.loop = l
		env.pre = pre
		for i, t := range ft.autoInv(l, pre) {
			ft.assert(preAt, t, fmt.Sprintf("loop%d.auto[%d].establish", l.Ordinal, i+1), "", "range index bounds", b.Instrs[0].Pos())
		}
		invs := ft.invariants(l)
		for i, inv := range invs {
			t, err := env.trBool(inv.E)
			if err != nil {
				return fmt.Errorf("loop %d invariant[%d] (%s:%d): %v", l.Ordinal, i+1, inv.File, inv.Line, err)
			}
			ft.assert(preAt, t, fmt.Sprintf("loop%d.inv[%s].establish", l.Ordinal, clauseID(inv, i)), "", inv.Text, b.Instrs[0].Pos())
		}
		// havoc
		st = pre.clone()
		for _, a := range sortedAllocs(l.modLocals) {
			if a.Heap {
				continue
			}
			ty := a.Type().(*types.Pointer).Elem()
			nv := ft.d.Fresh(fmt.Sprintf("l_%s_h%d", a.Comment, b.Index), ft.w.sortOf(ft.d, ty))
			ft.assume(preAt, ft.typeInvNoAlloc(nv, ty))
			st.locals[a] = nv
		}
		lms := ft.loopModSet(l, pre)
		preNext := ft.h.nextID(pre)
		for _, n := range lms.names() {
			am := lms.arrs[n]
			before := ft.h.arr(pre, n, am.sort)
			after := ft.d.Fresh(fmt.Sprintf("%s_h%d", n, b.Index), am.sort)
			st.heap[n] = after
			ft.h.arrSorts[n] = am.sort
			if !am.whole {
				ft.assume(preAt, frameCond(am, before, after, preNext))
			}
			if !am.whole && len(am.locs) == 0 {
				ft.h.noteFreshFrame(before, after, preNext)
				ft.elemsFreshFrame(preAt, before, after, preNext)
			} else if !am.whole {
				if c := ft.locsEmptyCond(am.locs); c.S != "false" {
					ft.h.noteFreshFrameCond(before, after, preNext, c)
				}
			}
		}
		for _, n := range sortedKeys(l.modGhost) {
			old := ft.h.ghostVar(pre, n, l.modGhost[n])
			nv := ft.d.Fresh(fmt.Sprintf("g_%s_h%d", n, b.Index), l.modGhost[n])
			st.ghost[n] = nv
			if n == "$next" {
				ft.assume(preAt, Le(old, nv))
			}
		}
		for _, r := range sortedRanges(l.modIters) {
			mt := r.X.Type().Underlying().(*types.Map)
			ks := ft.w.sortOf(ft.d, mt.Key())
			st.iters[r] = ft.d.Fresh(fmt.Sprintf("visited_h%d", b.Index), SArray(ks, SBool))
		}
		for _, n := range lms.names() {
			ft.h.noteHavoc(st.heap[n], ft.h.nextID(st))
			ft.h.noteMapArr(st, n)
		}
		// locals typed as references: keep allocatedness
		for _, a := range sortedAllocs(l.modLocals) {
			if a.Heap {
				continue
			}
			ty := a.Type().(*types.Pointer).Elem()
			ft.assume(preAt, ft.typeInv(st, st.locals[a], ty))
		}
		at = preAt
		ft.resetDefFlags(l, st)
		l.head = st.clone()
		envH := ft.newEnv(st)
		envH.loop = l
		envH.pre = pre
		var side []*Term
		envH.side = &side
		for _, t := range ft.autoInv(l, st) {
			ft.assume(at, t)
		}
		for _, inv := range invs {
			t, err := envH.trBool(inv.E)
			if err != nil {
				return err
			}
			ft.assume(at, t)
		}
		for _, s := range side {
			ft.assume(at, s)
		}
		if len(invs) > 0 {
			ft.cover(at, fmt.Sprintf("cover.loop%d", l.Ordinal), "")
		}
	} else if len(es) > 1 && ft.returnsDirectly(b) {
		// tail duplication: a small block that ends in a return is translated once per incoming edge, so
		// that postconditions are proved on each path's own state instead of a merged one
		for k, e := range es {
			ft.dupTag = fmt.Sprintf("_p%d", k+1)
			atk := ft.d.Const(fmt.Sprintf("at_b%d_p%d", b.Index, k+1), SBool)
			ft.assumeRaw(Eq(atk, e.cond))
			stk := e.st.clone()
			for _, in := range b.Instrs {
				if p := in.Pos(); p.IsValid() {
					ft.curPos = p
				}
				done, err := ft.instr(b, stk, atk, in)
				if err != nil {
					ft.dupTag = ""
					return err
				}
				if done {
					break
				}
			}
		}
		ft.dupTag = ""
		return nil
	} else {
		st, at = ft.merge(b, es)
	}
	ft.atBlk[b] = at
	for _, in := range b.Instrs {
		if p := in.Pos(); p.IsValid() {
			ft.curPos = p
		}
		done, err := ft.instrGuarded(b, st, at, in)
		if err != nil && ft.abstract {
			if _, isUns := err.(unsupportedErr); isUns {
				if v, isVal := in.(ssa.Value); isVal {
					ft.vals[v] = ft.absVal(v.Type(), "abs")
				}
				ft.w.assume("lock-discipline-only functions: unmodelled instructions yield arbitrary values (" + shortFuncName(ft.fn) + ")")
				err = nil
				if _, isRet := in.(*ssa.Return); isRet {
					done = true
				}
			}
		}
		if err != nil {
			return err
		}
		if done {
			break
		}
	}
	return nil
}

func clauseID(c Clause, i int) string {
	if c.Name != "" {
		return c.Name
	}
	return fmt.Sprintf("%d", i+1)
}

func (ft *FuncTr) typeInvNoAlloc(t *Term, ty types.Type) *Term {
	return ft.w.rangeAssume(ft.d, t, ty)
}

// goEdge records control flow from b to succ (handles back edges)
func (ft *FuncTr) goEdge(b, succ *ssa.BasicBlock, cond *Term, st *State) error {
	// (also for back edges: leaving an inner loop may jump straight to the header of the enclosing one)
	if b != nil {
		if err := ft.checkComplete(b, succ, cond); err != nil {
			return err
		}
	}
	if succ.Dominates(b) {
		l := ft.loops[succ]
		if l == nil {
			return unsupported("back edge to non-loop header")
		}
		if ls := ft.c.Loops[l.Ordinal]; ls != nil && len(ls.EndAsserts) > 0 {
			env := ft.newEnv(st)
			env.pre = l.pre
			env.headSt = l.head
			switch n := l.Node.(type) {
			case *ast.ForStmt:
				env.pos = n.Body.Rbrace
			case *ast.RangeStmt:
				env.pos = n.Body.Rbrace
			}
			for i, ea := range ls.EndAsserts {
				var used []*ssa.Alloc
				env.onLocal = func(a *ssa.Alloc) { used = append(used, a) }
				t, err := env.trBool(ea.E)
				env.onLocal = nil
				if err != nil {
					return fmt.Errorf("loop %d end assert[%d] (%s:%d): %v", l.Ordinal, i+1, ea.File, ea.Line, err)
				}
				// the assertion speaks about this iteration: it applies on the paths on which the body variables it
				// names were declared (a `continue` before a declaration leaves the variable without a value)
				var guard []*Term
				seen := map[*ssa.Alloc]bool{}
				for _, a := range used {
					if ft.trackDef[a] == l && !seen[a] {
						seen[a] = true
						guard = append(guard, ft.h.ghostVar(st, defFlag(a), SBool))
					}
				}
				if len(guard) > 0 {
					t = Implies(And(guard...), t)
				}
				ft.assert(cond, t, fmt.Sprintf("loop%d.end[%s]", l.Ordinal, clauseID(ea, i)), "", ea.Text, token.NoPos)
			}
		}
		if l.wholeHavoc {
			ft.assert(cond, Eq(ft.h.ghostVar(st, "$held", SArray(SPtr, SInt)), l.heldEntry), fmt.Sprintf("guard.loop%d", l.Ordinal), "", "every iteration ends holding the same locks the loop was entered with", token.NoPos)
			if invs := ft.invariants(l); len(invs) > 0 {
				env := ft.newEnv(st)
				env.loop = l
				env.pre = l.pre
				for i, inv := range invs {
					t, err := env.trBool(inv.E)
					if err != nil {
						return fmt.Errorf("loop %d invariant[%d]: %v", l.Ordinal, i+1, err)
					}
					ft.assert(cond, t, fmt.Sprintf("loop%d.inv[%s].maintain", l.Ordinal, clauseID(inv, i)), "", inv.Text, token.NoPos)
				}
			}
			return nil
		}
		env := ft.newEnv(st)
		env.loop = l
		env.pre = l.pre
		for i, t := range ft.autoInv(l, st) {
			ft.assert(cond, t, fmt.Sprintf("loop%d.auto[%d].maintain", l.Ordinal, i+1), "", "range index bounds", token.NoPos)
		}
		for i, inv := range ft.invariants(l) {
			t, err := env.trBool(inv.E)
			if err != nil {
				return fmt.Errorf("loop %d invariant[%d]: %v", l.Ordinal, i+1, err)
			}
			ft.assert(cond, t, fmt.Sprintf("loop%d.inv[%s].maintain", l.Ordinal, clauseID(inv, i)), "", inv.Text, token.NoPos)
		}
		return nil
	}
	ft.edges[succ] = append(ft.edges[succ], Edge{b, cond, st})
	return nil
}

// checkComplete: for loops declared complete, an edge from a block of the loop other than its header to a block outside
// the loop (break, goto) must be unreachable. succ == nil stands for a return inside the loop.
func (ft *FuncTr) checkComplete(b, succ *ssa.BasicBlock, cond *Term) error {
	if os.Getenv("GOVC_DEBUG_COMPLETE") != "" && succ != nil {
		fmt.Fprintf(os.Stderr, "edge b%d(%s) -> b%d(%s)\n", b.Index, b.Comment, succ.Index, succ.Comment)
	}
	for _, l := range ft.loops {
		ls := ft.c.Loops[l.Ordinal]
		if ls == nil || ls.Complete == nil || !l.Blocks[b] || b == l.Header {
			continue
		}
		if succ != nil && l.Blocks[succ] {
			continue
		}
		if os.Getenv("GOVC_DEBUG_COMPLETE") != "" {
			fmt.Fprintf(os.Stderr, "complete: loop %d early exit b%d -> %v\n", l.Ordinal, b.Index, succ)
		}
		id := ls.Complete.Name
		if id == "" {
			id = "1"
		}
		if ft.completeHit == nil {
			ft.completeHit = map[int]bool{}
		}
		ft.completeHit[l.Ordinal] = true
		ft.assert(cond, TFalse, fmt.Sprintf("loop%d.complete[%s]", l.Ordinal, id), "", ls.Complete.Text, token.NoPos)
	}
	return nil
}

// ---------- values ----------

func (ft *FuncTr) val(v ssa.Value) Val {
	if x, ok := ft.vals[v]; ok {
		return x
	}
	switch c := v.(type) {
	case *ssa.Const:
		return Val{T: ft.constVal(c)}
	case *ssa.Function:
		if con := ft.w.contractFor(calleeName(c)); con != nil && con.Denotes != nil && len(c.FreeVars) == 0 {
			con.Used = true
			env := &SpecEnv{h: ft.h, w: ft.w, pkg: ft.w.pkgOfFunc(c), vars: map[string]SV{}, st: ft.init, old: ft.init, qn: &ft.qn}
			dv := env.tr(con.Denotes)
			ft.w.assume("function values are identified with their behaviour (extensionality): " + shortFuncName(c) + " denotes " + con.DenotesText)
			return Val{Fn: c, T: env.val(dv)}
		}
		return Val{Fn: c, T: ft.fnConst(c)}
	case *ssa.Global:
		obj, _ := c.Object().(*types.Var)
		if obj == nil {
			panic(unsupported("global without object " + c.String()))
		}
		return Val{T: ft.h.globalAddr(obj)}
	case *ssa.Builtin:
		return Val{}
	}
	panic(unsupported(fmt.Sprintf("value %s (%T) used before definition", v.Name(), v)))
}

func (ft *FuncTr) fnConst(f *ssa.Function) *Term {
	return ft.d.Const("fn_"+sanitize(f.String()), SFn)
}

func (ft *FuncTr) term(v ssa.Value) *Term {
	x := ft.val(v)
	if x.T == nil {
		panic(unsupported(fmt.Sprintf("value %s has no term (tuple/ref used as value)", v.Name())))
	}
	return x.T
}

func (ft *FuncTr) constVal(c *ssa.Const) *Term {
	ty := c.Type()
	if c.Value == nil {
		return ft.w.zero(ft.d, ty)
	}
	env := &SpecEnv{h: ft.h, w: ft.w}
	return env.constTerm(c.Value, ty)
}

// define binds an SSA value to a fresh constant equal to t (keeps terms small and models readable)
func (ft *FuncTr) define(v ssa.Value, t *Term) {
	if len(t.S) < 24 {
		ft.vals[v] = Val{T: t}
		return
	}
	n := ft.d.Const(fmt.Sprintf("%s_%s%s", sanitize(v.Name()), fnTag(ft.fn), ft.dupTag), t.Sort)
	ft.assumeRaw(Eq(n, t))
	ft.vals[v] = Val{T: n}
}

func fnTag(fn *ssa.Function) string { return "v" }

func (ft *FuncTr) freshVal(v ssa.Value, ty types.Type, st *State, at *Term) *Term {
	t := ft.d.Fresh(v.Name(), ft.w.sortOf(ft.d, ty))
	ft.assume(at, ft.typeInv(st, t, ty))
	return t
}

func (ft *FuncTr) allocObj(st *State) *Term {
	nx := ft.h.nextID(st)
	p := PObj(nx)
	st.ghost["$next"] = Add(nx, IntLit(1))
	return p
}

// load through a pointer value
func (ft *FuncTr) load(st *State, at *Term, pv Val, ty types.Type, pos token.Pos, what string) *Term {
	if pv.Ref != nil {
		cur := ft.localGet(st, pv.Ref.alloc)
		for _, pe := range pv.Ref.path {
			cur = ft.project(cur, pe)
		}
		return cur
	}
	if pv.Imm != nil {
		t := ft.h.immAt(pv.Imm.s, pv.Imm.i, pv.Imm.elem)
		ft.assume(at, ft.typeInv(st, t, ty))
		return t
	}
	if pv.FieldOf != nil {
		ft.assertNonNil(at, pv.FieldOf.base, what, "pointer must not be nil", pos)
		t := ft.h.readField(st, pv.FieldOf.base, pv.FieldOf.sty, pv.FieldOf.idx)
		ft.assume(at, ft.typeInv(st, t, ty))
		return t
	}
	p := pv.T
	if p == nil {
		panic(unsupported("load through non-pointer value"))
	}
	ft.assertNonNil(at, p, what, "pointer must not be nil", pos)
	t := ft.h.readAt(st, p, ty)
	ft.assume(at, ft.typeInv(st, t, ty))
	return t
}

func (ft *FuncTr) project(cur *Term, pe PathElem) *Term {
	if pe.idx != nil {
		return Select(cur, pe.idx)
	}
	si := ft.w.structInfo(pe.ty)
	st := pe.ty.Underlying().(*types.Struct)
	if !si.has(pe.field) {
		panic(unsupported(fmt.Sprintf("field %s.%s not in relevance set", si.Key, st.Field(pe.field).Name())))
	}
	return mk(ft.w.sortOf(ft.d, st.Field(pe.field).Type()), si.sel(pe.field), cur)
}

func (ft *FuncTr) update(cur *Term, path []PathElem, nv *Term) *Term {
	if len(path) == 0 {
		return nv
	}
	pe := path[0]
	if pe.idx != nil {
		inner := ft.update(Select(cur, pe.idx), path[1:], nv)
		return Store(cur, pe.idx, inner)
	}
	si := ft.w.structInfo(pe.ty)
	if !si.has(pe.field) {
		return cur
	}
	st := pe.ty.Underlying().(*types.Struct)
	var args []*Term
	for _, i := range si.Fields {
		f := mk(ft.w.sortOf(ft.d, st.Field(i).Type()), si.sel(i), cur)
		if i == pe.field {
			f = ft.update(f, path[1:], nv)
		}
		args = append(args, f)
	}
	return mk(cur.Sort, "mk_"+si.Name, args...)
}

func (ft *FuncTr) store(st *State, at *Term, pv Val, ty types.Type, v *Term, pos token.Pos, what string) {
	if pv.Ref != nil {
		cur := ft.localGet(st, pv.Ref.alloc)
		nt := ft.update(cur, pv.Ref.path, v)
		if len(nt.S) > 1500 {
			// a struct value rebuilt field by field nests the previous value once per field: name it to keep terms linear
			c := ft.d.Fresh("l_"+pv.Ref.alloc.Comment+"_u", nt.Sort)
			ft.assume(at, Eq(c, nt))
			nt = c
		}
		st.locals[pv.Ref.alloc] = nt
		return
	}
	if pv.Imm != nil {
		panic(unsupported("store into element of immutable byte-string type"))
	}
	if pv.FieldOf != nil {
		ft.assertNonNil(at, pv.FieldOf.base, what, "pointer must not be nil", pos)
		fname := ft.w.fieldArrName(pv.FieldOf.sty, pv.FieldOf.idx)
		ft.onWrite(st, at, fname, pv.FieldOf.base, pos)
		// escape / provenance as for plain stores (see below)
		id, local := ft.allocID[rootTerm(pv.FieldOf.base.S)]
		if !local && pointerLike(v.Sort) {
			ft.leak()
		}
		var fbefore *Term
		if local {
			fbefore = st.heap[fname]
		}
		ft.h.writeField(st, pv.FieldOf.base, pv.FieldOf.sty, pv.FieldOf.idx, v)
		if local && fbefore != nil {
			if a, ok := st.heap[fname]; ok && a.S != fbefore.S {
				ft.h.noteFreshFrame(fbefore, a, id)
			}
		}
		return
	}
	if pv.T == nil {
		panic(unsupported("store through non-pointer value"))
	}
	ft.assertNonNil(at, pv.T, what, "pointer must not be nil", pos)
	if ft.ownMod != nil {
		arrs := map[string]*Sort{}
		ft.h.arraysOfTypeMem(ty, arrs)
		for _, n := range sortedKeys(arrs) {
			ft.onWrite(st, at, n, pv.T, pos)
		}
	}
	// a store into an object this function allocated keeps all cells of older objects: record it so that
	// opaque predicates stay stable across it
	var provBefore map[string]*Term
	var provID *Term
	if _, local := ft.allocID[rootTerm(pv.T.S)]; !local && pointerLike(v.Sort) {
		ft.leak() // a reference stored into an older object may make local objects reachable from it
	}
	if id, ok := ft.allocID[rootTerm(pv.T.S)]; ok {
		provID = id
		provBefore = map[string]*Term{}
		arrs := map[string]*Sort{}
		ft.h.arraysOfTypeMem(ty, arrs)
		for n, srt := range arrs {
			provBefore[n] = ft.h.arr(st, n, srt)
		}
	}
	defer func() {
		for n, b := range provBefore {
			if a, ok := st.heap[n]; ok && a.S != b.S {
				ft.h.noteFreshFrame(b, a, provID)
			}
		}
	}()
	var before *Term
	var mname string
	if !isStructT(ty) && !isArrayT(ty) {
		srt := ft.w.sortOf(ft.d, ty)
		if ft.elemsEager[srt.Mangle()] {
			mname = memArrName(srt)
			before = ft.h.arr(st, mname, SArray(SPtr, srt))
		}
	}
	ft.h.writeAt(st, pv.T, ty, v)
	if before != nil {
		// a plain store: element sets of slices over other array objects are unchanged
		after := ft.h.arr(st, mname, before.Sort)
		es := before.Sort.V
		sv := &Term{"es", SSlc}
		e1 := ft.h.elemsOf(after, sv, es)
		e0 := ft.h.elemsOf(before, sv, es)
		ft.assume(at, Forall([]Bound{{"es", SSlc}}, Implies(Or(IsNil(SlcArr(sv)), Not(Eq(PObjID(SlcArr(sv)), PObjID(pv.T)))), Eq(e1, e0)), []*Term{e1}))
	}
}

func exprText(ft *FuncTr, v ssa.Value) string {
	// a stable, source-derived description of a value for obligation names
	switch x := v.(type) {
	case *ssa.Parameter:
		return x.Name()
	case *ssa.Alloc:
		return x.Comment
	case *ssa.FieldAddr:
		st := derefType(x.X.Type()).Underlying().(*types.Struct)
		return exprText(ft, x.X) + "." + st.Field(x.Field).Name()
	case *ssa.Field:
		st := x.X.Type().Underlying().(*types.Struct)
		return exprText(ft, x.X) + "." + st.Field(x.Field).Name()
	case *ssa.UnOp:
		if x.Op == token.MUL {
			return exprText(ft, x.X)
		}
	case *ssa.IndexAddr:
		return exprText(ft, x.X) + "[]"
	case *ssa.Lookup:
		return exprText(ft, x.X) + "[]"
	case *ssa.Extract:
		return exprText(ft, x.Tuple)
	case *ssa.Call:
		if f := x.Call.StaticCallee(); f != nil {
			return f.Name() + "()"
		}
		if x.Call.IsInvoke() {
			return x.Call.Method.Name() + "()"
		}
	case *ssa.FreeVar:
		return x.Name()
	case *ssa.Const:
		return x.String()
	}
	return "_"
}

func (ft *FuncTr) assertNonNil(at *Term, p *Term, detail, clause string, pos token.Pos) {
	if ft.nonNil[rootTerm(p.S)] {
		return
	}
	ft.assert(at, Not(IsNil(p)), "safety.nil", detail, clause, pos)
}

// rootTerm strips (Fld x n) / (Elem x i) wrappers textually
func rootTerm(s string) string {
	for strings.HasPrefix(s, "(Fld ") || strings.HasPrefix(s, "(Elem ") {
		s = s[strings.Index(s, " ")+1:]
		// take first balanced token
		if strings.HasPrefix(s, "(") {
			depth := 0
			for i := 0; i < len(s); i++ {
				if s[i] == '(' {
					depth++
				}
				if s[i] == ')' {
					depth--
					if depth == 0 {
						s = s[:i+1]
						break
					}
				}
			}
		} else {
			s = s[:strings.Index(s, " ")]
		}
	}
	return s
}

// localSV: the current value of the local variable called name that is visible at pos
func (ft *FuncTr) localSV(e *SpecEnv, name string, pos token.Pos) (SV, bool) {
	al := ft.allocByName(name, pos)
	if al == nil {
		return SV{}, false
	}
	if e.onLocal != nil {
		e.onLocal(al)
	}
	ty := al.Type().(*types.Pointer).Elem()
	v, seen := ft.vals[al]
	if al.Heap && (!seen || v.Ref == nil) {
		if v.T == nil {
			return SV{}, false
		}
		return SV{Addr: v.T, Ty: ty}, true
	}
	return SV{T: ft.localGet(e.st, al), Ty: ty}, true
}

func sortedAllocs(m map[*ssa.Alloc]bool) []*ssa.Alloc {
	var out []*ssa.Alloc
	for a := range m {
		out = append(out, a)
	}
	sort.Slice(out, func(i, j int) bool {
		if out[i].Pos() != out[j].Pos() {
			return out[i].Pos() < out[j].Pos()
		}
		return out[i].Name() < out[j].Name()
	})
	return out
}

func sortedRanges(m map[*ssa.Range]bool) []*ssa.Range {
	var out []*ssa.Range
	for a := range m {
		out = append(out, a)
	}
	sort.Slice(out, func(i, j int) bool {
		if out[i].Pos() != out[j].Pos() {
			return out[i].Pos() < out[j].Pos()
		}
		return out[i].Name() < out[j].Name()
	})
	return out
}

// returnsDirectly: b ends in a return, has no phi and contains no call with anchored assertions
func (ft *FuncTr) returnsDirectly(b *ssa.BasicBlock) bool {
	if len(b.Instrs) == 0 || len(b.Instrs) > 40 {
		return false
	}
	if _, ok := b.Instrs[len(b.Instrs)-1].(*ssa.Return); !ok {
		return false
	}
	for _, in := range b.Instrs {
		switch in.(type) {
		case *ssa.Phi, *ssa.Defer, *ssa.Go:
			return false
		}
	}
	return true
}

// pointerLike: values of this sort may carry references
func pointerLike(s *Sort) bool {
	switch s {
	case SInt, SBool, SStr, SReal:
		return false
	}
	return true
}

// leak: from here on the objects allocated so far may be reachable from older objects (or known to callees);
// stores into them are no longer invisible to predicates over older objects.
func (ft *FuncTr) leak() {
	for k := range ft.allocID {
		delete(ft.allocID, k)
	}
	for k := range ft.localArr {
		delete(ft.localArr, k)
	}
}

// locsEmptyCond: every location of a location-level frame is the element range of a slice of capacity 0: such a
// slice has no element cells, so the frame writes only objects allocated after its pre-state (appends to it
// reallocate). (A frame over elements of an older array gives no such guarantee: that array may be reachable from
// older objects, so predicates over them may change.)
func (ft *FuncTr) locsEmptyCond(locs []Loc) *Term {
	var cs []*Term
	for _, l := range locs {
		switch l.kind {
		case LocExact:
			return TFalse
		default:
			cs = append(cs, Eq(SlcCap(l.t), IntLit(0)))
		}
	}
	return And(cs...)
}

// instrGuarded: in lock-discipline-only functions an instruction outside the modelled subset is reported as an
// error value (the caller then abstracts it) instead of aborting the function.
func (ft *FuncTr) instrGuarded(b *ssa.BasicBlock, st *State, at *Term, in ssa.Instruction) (done bool, err error) {
	if !ft.abstract {
		return ft.instr(b, st, at, in)
	}
	defer func() {
		if r := recover(); r != nil {
			if u, ok := r.(unsupportedErr); ok {
				err = u
				return
			}
			panic(r)
		}
	}()
	return ft.instr(b, st, at, in)
}

func deferFlag(d *ssa.Defer) string { return fmt.Sprintf("$defer_%d_%d", d.Block().Index, int(d.Pos())) }

// elemsFreshFrame: a fresh-only frame keeps the element set of every slice over an array allocated before it
// (derived from the frame; stated because deriving it through the Skolem index function is slow).
func (ft *FuncTr) elemsFreshFrame(at *Term, before, after, next *Term) {
	srt := before.Sort
	if srt == nil || srt.K != SPtr || !elemsSupported(srt.V) || !ft.elemsEager[srt.V.Mangle()] {
		return
	}
	sv := &Term{"es", SSlc}
	e1 := ft.h.elemsOf(after, sv, srt.V)
	e0 := ft.h.elemsOf(before, sv, srt.V)
	ft.assume(at, Forall([]Bound{{"es", SSlc}}, Implies(Or(IsNil(SlcArr(sv)), Lt(PObjID(SlcArr(sv)), next)), Eq(e1, e0)), []*Term{e1}))
}
