module govc

go 1.23.6

require (
	go.universe.tf/metallb v0.0.0
	golang.org/x/tools v0.29.0
)

require (
	golang.org/x/mod v0.22.0 // indirect
	golang.org/x/sync v0.11.0 // indirect
)

replace go.universe.tf/metallb => /repo
